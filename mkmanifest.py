#!/usr/bin/env python3
"""Regenerates MANIFEST.json from the tables below (run: python3-vt mkmanifest.py)."""
import json, os
HERE = os.path.dirname(os.path.abspath(__file__))
BASELINE = ("cd /repo && /venv/bin/python -m pytest -ra -q -p no:cacheprovider "
            "--timeout=900 --continue-on-collection-errors")
NOTE = ("Trusted base: libsodium via nacl.bindings and hashlib (shared by oracle and code "
        "under test); the simulator's stubs (clocks, network, parties, ledger) and the small "
        "reference models in tapesim/oracle.py and tapesim/props/*.py. Seeded search samples "
        "schedules and fault sequences: a clean batch is evidence, not proof.")
CLAIMED = {
 'C16': dict(section='3.1', technique='deterministic simulation: seeded validator-clock fault schedules (skew, drift, fractional, step between reads, freeze, failing clock read) over time-lock validations in every nesting context, oracle on recorded clock reads; a slice of every batch is re-run in an interpreter started with -O -W error',
   text='Seeded search over simulated validator clocks and boundary-stratified validations of the four raw time instructions and the three time-lock builders; every clock read is a recorded event and the oracle judges each verdict from the recorded reads. Exploration is the right level: the property depends on the clock relation at each read, which only a controlled clock can place on every boundary.'),
 'C19': dict(section='3.6', technique='deterministic simulation: seeded histories of registry / run / compile calls in one forked process per history, with raising and re-entrant callbacks injected mid-run; set/dict reference model compared through behavioural probes after every call; a slice of every batch is re-run in an interpreter started with -O -W error',
   text='Seeded search over call histories (bounded-exhaustive prefix of length <= 3 over a 14-op core alphabet, then random to 30/60 ops) on process-global registries, one OS process per history; callbacks fail or re-enter the registry API while a run is in flight. After every call a probe battery (which plugins/contracts/aliases a fresh run or compile actually uses; a registry-independent battery of compiles and runs) is compared with a set/dict model. Exploration is the right level: the property quantifies over histories, which the simulator generates, shrinks and replays.'),
 'C15': dict(section='3.3', technique='deterministic simulation: seeded swap histories (sender, receiver, outsider, ledger) with creator/validator clock faults (incl. a failing clock read), witness corruption (single bits, malleated and crafted witnesses, changed transactions), locks behind script-hash / taproot / Merklized / graftroot wrappers; item-level and who-does-what reference models on recorded clock reads; a slice of every batch is re-run in an interpreter started with -O -W error',
   text='Seeded search over histories in which HTLC/PTLC outputs are created on the sender clock and then attacked by receiver, sender and an outsider (who learns preimages only from published claims) on validators whose clocks are skewed, fractional, stepping (also between the two reads of one validation) or frozen, with single-bit corruption of witness items and all 24 witness-kind x lock-kind cross pairings. Two independent oracles judge every attempt. Exploration is the right level: deadlines are relations between two clocks the tests never control.'),
 'C14': dict(section='3.2', technique='deterministic simulation: seeded lease histories (root, foreign root, delegate chains 1-6, attacker) with validator clock faults (skew, fractional, step between reads, freeze) and transport tampering (bit flips per certificate field, splice, drop, dup, reorder, crafted markers and witnesses, re-cut certificates, changed transactions), chains of up to 120 links, locks behind wrappers; item-level and who-level reference models on recorded clock reads; a slice of every batch is re-run in an interpreter started with -O -W error',
   text='Certificates are leases: seeded search over issuance chains and spend attempts validated on simulated clocks that are skewed, fractional, frozen or step between the two timestamp reads of a link, with single-bit corruption of every certificate field and of the final signature, cross-root splices, dropped/duplicated/reordered links, non-delegable mid-chain links, wrong signers, cross-lock witnesses and replays after expiry; every certificate is round-tripped. Exploration is the right level: window membership is a relation between t and a clock the tests never control.'),
 'C20': dict(section='3.7', technique='deterministic simulation: mixed-version network of validator processes (fork per node), seeded activation instants, crash-restarts, invalid activations and delayed / duplicated / reordered transaction delivery; closed-form NOP oracle, exact fork-transaction oracle and pairwise compatibility check over the delivery history; a slice of every batch is re-run in an interpreter started with -O -W error',
   text='Each validator is its own OS process forked from the pristine image; activation of 1-3 conforming soft forks is an event in each node history (or never happens, or is attempted with invalid arguments, or is lost by a crash-restart). Closed-form NOP probes, fork transactions and generated programs with the forked code nested to depth 3 are delivered to every node with seeded delay, duplication and reordering, so the same bytes meet a node before and after its activation. Checked at every delivery and over the history: NOP semantics, exact fork-transaction verdicts, accept under S implies accept under every subset of S, one bytecode across spellings and versions, reachability by name and aliases, failed activations change nothing. Exploration is the right level: the property is about version skew across a network, which only the simulator can schedule.'),
 'C17': dict(section='3.4', technique='deterministic simulation: seeded two-party adapter exchanges (signer, counterparty, man-in-the-middle, validator) over a faulty channel (single-bit corruption of sa/R/T/X/m, drop, duplicate, misroute, splice) with crash-restart of the counterparty; algebraic reference via libsodium and Ed25519 verification as oracles; a slice of every batch is re-run in an interpreter started with -O -W error',
   text='The exchange a user relies on is simulated: B offers T, A returns an adapter bound to (X, T, message), B verifies it now and decrypts it later, publication reveals t to A. Five protocol variants (two-/three-script tools flows, deprecated single lock, raw PUBLIC and PRIVATE instructions), six tweak-scalar classes, messages 0-512 bytes. The channel corrupts single bits of each of the five check inputs, drops, duplicates, misroutes and splices adapters; B crashes between decrypting and publishing; M publishes the adapter itself, R+T with sa, and decryptions under wrong scalars before t is revealed. Invariants V1-V7 (completeness, detection, soundness proper: a passing check implies a valid signature after decryption, decryption value, extraction, only-t-decrypts, builder composition). Exploration is the right level for the protocol ordering and corruption faults; edge scalars and message sizes enter as swarm knobs.'),
 'C18': dict(section='3.5', technique='deterministic discrete-event simulation of the n-party AMHL protocol: seeded message delay / drop / duplicate / reorder / single-bit corruption / partitions, party crash-restart and stalls, adversarial claim attempts with every scalar seen so far; algebraic reference (independent point sums mod L) and ledger-history checks incl. bounded liveness after the last fault; a slice of every batch is re-run in an interpreter started with -O -W error',
   text='1-2 concurrent chains of 2-8 payers are set up by the real setup_amhl / AMHL.setup and executed as a message-passing protocol (views, adapters, acks, ledger publications) by party stubs with retransmission and persistence, under a seeded faulty network and party crashes. Invariants A1-A6: tweak points are prefix sums, honest views and adapters validate, release yields exactly the left prefix sum and a valid signature, a claim is accepted iff its scalar opens that hop (attackers use extracted scalars, sums, differences, other-chain and neighbour shares, adapters as signatures), claims are strictly right-to-left, and the cascade completes within a bounded number of rounds after the last fault. Exploration is the right level: the property quantifies over release orders and histories that only a controlled network and crash schedule can produce.'),
}
NA = {
 'C01': 'verdict is a function of (script list, cache, limits) computed in one synchronous call; no clock, schedule, fault or history to simulate (its never-raises clause is only carried as an auxiliary probe)',
 'C02': 'pure Ed25519 predicate over (key, signature, flag, allowed mask, fields); deterministic signing; no seam involved',
 'C03': 'pure predicate over the multiset and order of stack items; permutations of one input, not deliveries in time',
 'C04': 'Merkle binding/completeness are functions of (tree, proof); filler randomness is excluded by the property itself',
 'C05': 'algebraic identity plus verdict exactness over inputs; no seam',
 'C06': 'instruction conformance needs a reference interpreter and a program generator (differential testing), not a simulator; the clock-reading instructions are covered under C16',
 'C07': 'per-step resource bounds of a deterministic interpreter over generated programs; the property says nothing about failed allocations, so allocator faults would test something else',
 'C08': 'non-interference of a deterministic execution under the precondition that no plugin/contract (the only callback seams) is installed',
 'C09': 'configuration x nesting-context product evaluated by deterministic single runs; no history',
 'C10': 'pure codec',
 'C11': 'pure translation from source text to bytes',
 'C12': 'pure function of a byte string; termination for all byte strings is an input-space claim',
 'C13': 'verdict is a function of (witness, lock, sigfields); key holding is static, no protocol state or time (time/protocol-dependent builders are C14-C18)',
}
man = {
 'version': 1,
 'setup_cmd': "/venv/bin/python -c \"import nacl.bindings, sys; sys.path.insert(0, '/repo'); import tapescript; print('ok', tapescript.__file__)\"",
 'hooks': {'guard': 'TAPESCRIPT_VERIF', 'enable': 'no source hooks: all seams are module attributes / public API arguments; time.time is pinned before import (tapesim/seams.py). The guard name is reserved and unused.',
           'baseline_off_cmd': BASELINE, 'source_commits': [], 'add_only': True},
 'engines': [{'name': 'tapesim', 'path': 'tapesim/', 'serves_properties': sorted(CLAIMED),
              'kind_free_text': 'deterministic discrete-event simulator with seeded fault injection (own PRNG, plan/replay/minimise), Python, drives real /repo code'}],
 'checks': [], 'not_applicable': [],
 'notes': 'Exit 3 + HARNESS-ERROR = problem of the machinery (never a verdict). KNOWN_FINDINGS.txt lists recorded genuine defects; findings/ holds their committed replays. ./check --selftest determinism|mutants|seeded|neutral prove determinism, sensitivity (hand-written mutants, 175 independently written breaking changes) and specificity (behaviour-preserving refactorings stay green); tools/auto_mutants.py generates mutants of the anchored functions.',
}
for pid in sorted(CLAIMED):
    c = CLAIMED[pid]
    man['checks'].append({
        'property_id': pid,
        'quick_cmd': './check %s --tier quick' % pid,
        'thorough_cmd': './check %s --tier thorough' % pid,
        'evidence_file': 'evidence/%s.json' % pid,
        'replay_cmd_template': './check %s --replay {path}' % pid,
        'engine': 'tapesim',
        'level_claimed': {'category': 'exploration', 'text': c['text'], 'design_ref': 'DESIGN.md section ' + c['section']},
        'level_note': NOTE, 'technique': c['technique']})
for pid in sorted(NA):
    man['not_applicable'].append({'property_id': pid, 'reason': NA[pid]})
json.dump(man, open(os.path.join(HERE, 'MANIFEST.json'), 'w'), indent=1)
try:
    import jsonschema
    jsonschema.validate(man, json.load(open('/root/.vp/MANIFEST.schema.json')))
    for f in os.listdir(os.path.join(HERE, 'evidence')):
        if f[0] == 'C' and f.endswith('.json'):
            jsonschema.validate(json.load(open(os.path.join(HERE, 'evidence', f))), json.load(open('/root/.vp/EVIDENCE.schema.json')))
    print('MANIFEST and evidence validate')
except ImportError:
    print('jsonschema not available; not validated')
