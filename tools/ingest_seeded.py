#!/venv/bin/python
"""Confirm an independently written breaking change and file it under
/verif/seeded/<id>/.   usage: ingest_seeded.py <id> <worktree> <property>

Confirms in a fresh scratch copy (outside /repo and /verif): the patch applies,
the unedited test suite still gives 267 passed / the same 3 failed, the
demonstration exits 1 with the patch and 0 without it.  Then runs the quick
check of the property against the patched copy (VERIF_REPO) and records what
happened in meta.json."""
import json, os, re, shutil, subprocess, sys
sid, wt, pid = sys.argv[1:4]
PY = '/venv/bin/python'
dst = '/verif/seeded/' + sid
os.makedirs(dst, exist_ok=True)
for f in ('patch.diff', 'demo.py', 'notes.md'):
    shutil.copy(os.path.join(wt, 'SEEDED', f), os.path.join(dst, f))
scratch = '/tmp/ingest.%d' % os.getpid()
shutil.rmtree(scratch, ignore_errors=True)
os.makedirs(scratch)
for name in ('tapescript', 'tests'):
    shutil.copytree(os.path.join('/repo', name), os.path.join(scratch, name),
                    ignore=shutil.ignore_patterns('__pycache__'))
os.makedirs(scratch + '/SEEDED')
shutil.copy(dst + '/demo.py', scratch + '/SEEDED/demo.py')
env = dict(os.environ, PYTHONDONTWRITEBYTECODE='1')
def demo():
    r = subprocess.run([PY, 'SEEDED/demo.py'], cwd=scratch, capture_output=True, text=True, env=env, timeout=900)
    return r.returncode, (r.stdout + r.stderr)[-400:]
def suite():
    r = subprocess.run([PY, '-m', 'pytest', '-q', '-p', 'no:cacheprovider', '--timeout=900', 'tests'],
                       cwd=scratch, capture_output=True, text=True, env=env, timeout=1800)
    failed = sorted(re.findall(r'^FAILED (\S+)', r.stdout, re.M))
    m = re.search(r'(\d+) passed', r.stdout)
    return int(m.group(1)) if m else 0, failed
meta = {'id': sid, 'property': pid, 'source': 'independent sub-agent given only the property text and a scratch worktree'}
rc0, _ = demo()
meta['demo_exit_without_patch'] = rc0
ap = subprocess.run(['patch', '-p1', '-s', '-i', dst + '/patch.diff'], cwd=scratch, capture_output=True, text=True)
meta['patch_applies'] = ap.returncode == 0
passed, failed = suite()
meta['suite_with_patch'] = {'passed': passed, 'failed': failed}
rc1, out1 = demo()
meta['demo_exit_with_patch'] = rc1
meta['demo_output_with_patch'] = out1
meta['confirmed'] = bool(rc0 == 0 and rc1 != 0 and passed == 267 and len(failed) == 3 and ap.returncode == 0)
notes = open(dst + '/notes.md').read()
meta['needs_to_manifest'] = notes[:1500]
if pid in ('C14', 'C15', 'C16', 'C17', 'C18', 'C19', 'C20'):
    envc = dict(env, VERIF_REPO=scratch, VERIF_EVIDENCE_DIR=scratch + '/ev')
    r = subprocess.run([PY, '/verif/check.py', pid], capture_output=True, text=True, env=envc, timeout=3600)
    sig = re.findall(r'^(?:under python -O[^:]*: )?violation (\S+)', r.stdout, re.M)
    meta['quick_check'] = {'cmd': 'VERIF_REPO=<patched copy> ./check %s' % pid, 'exit': r.returncode,
                           'signature': sig[:1], 'detected': r.returncode == 1 and 'VIOLATION property=' + pid in r.stdout}
    mm = re.search(r'replay=(\S+)', r.stdout)
    if mm and '/replays/' in mm.group(1) and os.path.exists(mm.group(1)):
        os.unlink(mm.group(1))
    if r.returncode == 3:
        meta['quick_check']['harness_error'] = r.stdout[-600:]
shutil.rmtree(scratch, ignore_errors=True)
json.dump(meta, open(dst + '/meta.json', 'w'), indent=1)
print(json.dumps({k: meta[k] for k in meta if k not in ('needs_to_manifest', 'demo_output_with_patch')}, indent=1))
