#!/venv/bin/python
"""Machine-generated mutants of the functions the claimed properties are
anchored in -- a systematic complement to the hand-written mutants
(tapesim/mutants.py) and the agent-written changes (seeded/).

  /venv/bin/python tools/auto_mutants.py [--limit N] [--only PID] [--par 4]

For every target function, every source line gets the classic token mutations
(comparison / arithmetic / boolean operators, constants, slices, `not`
removal, `return` flips).  A mutant that still imports and passes the
repository's 267 tests is handed to the quick check of its property (in a
scratch copy, VERIF_REPO); survivors of the check are listed for inspection:
each is either equivalent (the property does not see the difference) or a gap.

Writes evidence/selftest-automutants.json.  Scratch copies under /tmp are
removed as soon as a mutant is done."""
import argparse
import ast
import json
import os
import re
import shutil
import subprocess
import sys
import time
from concurrent.futures import ThreadPoolExecutor

HERE = os.path.dirname(os.path.dirname(os.path.abspath(__file__)))
REPO = os.environ.get('VERIF_REPO', '/repo')
PY = sys.executable

FN, TL, PA, AM = ('tapescript/functions.py', 'tapescript/tools.py',
                  'tapescript/parsing.py', 'tapescript/AMHL.py')

TARGETS = {
    'C16': [(FN, 'OP_CHECK_TIMESTAMP'), (FN, 'OP_CHECK_TIMESTAMP_VERIFY'), (FN, 'OP_CHECK_EPOCH'),
            (FN, 'OP_CHECK_EPOCH_VERIFY'), (TL, 'make_timestamp_after_lock'),
            (TL, 'make_timestamp_before_lock'), (TL, 'make_timestamp_between_lock'),
            (FN, 'set_tape_flags'), (FN, 'run_script')],
    'C14': [(TL, 'make_delegate_key_lock'), (TL, 'make_delegate_key_chain_lock'),
            (TL, 'make_delegate_key_cert'), (TL, 'make_delegate_key_witness'),
            (TL, 'make_delegate_key_chain_witness'), (TL, 'Certificate.preimage'),
            (TL, 'Certificate.pack'), (TL, 'Certificate.unpack'), (FN, 'OP_CHECK_SIG'),
            (FN, 'OP_CHECK_SIG_STACK'), (FN, 'OP_CALL'), (FN, 'OP_DEF'), (FN, 'OP_IF_ELSE'),
            (FN, 'OP_AND'), (FN, 'run_auth_scripts')],
    'C15': [(TL, 'make_htlc_sha256_lock'), (TL, 'make_htlc_shake256_lock'),
            (TL, 'make_htlc2_sha256_lock'), (TL, 'make_htlc2_shake256_lock'),
            (TL, 'make_htlc_witness'), (TL, 'make_htlc2_witness'), (TL, 'make_ptlc_lock'),
            (TL, 'make_ptlc_witness'), (TL, 'make_ptlc_refund_witness'), (FN, 'OP_IF'),
            (FN, 'OP_SHAKE256'), (FN, 'OP_SHA256'), (FN, 'OP_GET_MESSAGE')],
    'C17': [(FN, 'OP_MAKE_ADAPTER_SIG_PUBLIC'), (FN, 'OP_MAKE_ADAPTER_SIG_PRIVATE'),
            (FN, 'OP_CHECK_ADAPTER_SIG'), (FN, 'OP_DECRYPT_ADAPTER_SIG'),
            (TL, 'make_adapter_locks_pub'), (TL, 'make_adapter_locks_prv'),
            (TL, 'make_adapter_lock_pub'), (TL, 'make_adapter_lock_prv'),
            (TL, 'make_adapter_witness'), (TL, 'make_adapter_decrypt'), (TL, 'decrypt_adapter'),
            (FN, 'aggregate_points'), (FN, 'derive_point_from_scalar'), (FN, 'clamp_scalar')],
    'C18': [(AM, 'AMHL.sample'), (AM, 'AMHL.samples'), (AM, 'AMHL.oneway'), (AM, 'AMHL.setup'),
            (AM, 'AMHL.scalar_sum'), (AM, 'AMHL.setup_for'), (AM, 'AMHL.check_setup'),
            (AM, 'AMHL.release'), (AM, 'AMHL.verify_lock_key'), (TL, 'setup_amhl'),
            (TL, 'release_left_amhl_lock')],
    'C19': [(FN, 'add_plugin'), (FN, 'remove_plugin'), (FN, 'reset_plugins'), (FN, 'run_plugins'),
            (FN, 'add_contract'), (FN, 'remove_contract'), (FN, 'add_contract_interface'),
            (FN, 'remove_contract_interface'), (FN, 'add_alias'),
            (FN, 'add_signature_extension'), (FN, 'remove_signature_extension'),
            (FN, 'reset_signature_extensions'), (FN, 'run_sig_extensions'),
            (FN, 'OP_CHECK_TEMPLATE'), (FN, 'OP_INVOKE')],
    'C20': [(FN, 'NOP'), (FN, 'add_opcode'), (TL, 'add_soft_fork'),
            (PA, 'add_opcode_parsing_handlers'), (FN, 'run_tape')],
}

CL = 'tapescript/classes.py'
# second campaign: the instructions the builders' locks and witnesses are made of, the
# interpreter plumbing under them, and the helpers of the crypto instructions
TARGETS2 = {
    'C14': [(FN, 'OP_DUP'), (FN, 'OP_FALSE'), (FN, 'OP_TRUE'), (FN, 'OP_NOT'), (FN, 'OP_POP0'),
            (FN, 'OP_PUSH0'), (FN, 'OP_PUSH1'), (FN, 'OP_PUSH2'), (FN, 'OP_READ_CACHE'),
            (FN, 'OP_WRITE_CACHE'), (FN, 'OP_SPLIT'), (FN, 'OP_SWAP2'), (FN, 'OP_VERIFY'),
            (FN, 'OP_SIGN'), (FN, 'OP_SIGN_STACK'), (FN, 'and_bytes'), (FN, 'not_bytes'),
            (FN, 'bytes_are_same'), (FN, 'OP_RETURN'), (CL, 'Stack.put'), (CL, 'Stack.get'),
            (CL, 'Stack.peek'), (CL, 'Tape.read'), (CL, 'Tape.has_terminated'),
            (FN, 'OP_EVAL'), (FN, 'OP_TAPROOT'), (FN, 'OP_MERKLEVAL'), (TL, 'make_scripthash_lock'),
            (TL, 'make_taproot_lock'), (TL, 'make_graftroot_lock')],
    'C15': [(FN, 'OP_EQUAL'), (FN, 'OP_EQUAL_VERIFY'), (FN, 'OP_CHECK_SIG_VERIFY'),
            (FN, 'OP_DERIVE_SCALAR'), (FN, 'OP_DERIVE_POINT'), (FN, 'derive_key_from_seed'),
            (FN, 'int_to_bytes'), (FN, 'bytes_to_int'), (TL, '_pubkey'), (TL, '_prvkey')],
    'C16': [(FN, 'OP_LOOP'), (FN, 'OP_TRY_EXCEPT'), (FN, 'run_tape'), (FN, 'OP_IF'),
            (FN, 'OP_IF_ELSE'), (FN, 'OP_CALL'), (FN, 'OP_DEF'), (FN, 'OP_EVAL')],
    'C17': [(FN, 'OP_CONCAT'), (FN, 'H_big'), (FN, 'H_small'), (FN, 'OP_GET_MESSAGE'),
            (FN, 'OP_SIGN'), (FN, 'OP_CHECK_SIG'), (TL, 'make_single_sig_lock'),
            (TL, 'make_single_sig_witness')],
    'C18': [(TL, 'make_ptlc_lock'), (TL, 'make_ptlc_refund_witness'), (TL, 'make_adapter_witness'),
            (TL, 'make_adapter_locks_pub'), (TL, 'decrypt_adapter'), (FN, 'OP_CHECK_ADAPTER_SIG'),
            (FN, 'OP_DECRYPT_ADAPTER_SIG')],
    'C19': [(FN, 'OP_GET_MESSAGE'), (FN, 'OP_SIGN'), (FN, 'OP_CHECK_TRANSFER'), (FN, 'run_script'),
            (FN, 'run_auth_scripts'), (FN, 'OP_TRY_EXCEPT'), (FN, 'OP_LOOP'), (FN, 'OP_EVAL')],
    'C20': [(FN, 'OP_MERKLEVAL'), (FN, 'OP_EVAL'), (FN, 'OP_TRY_EXCEPT'), (FN, 'OP_LOOP'),
            (FN, 'OP_IF'), (FN, 'OP_IF_ELSE'), (FN, 'OP_CALL'), (FN, 'OP_DEF'), (FN, 'OP_DEPTH'),
            (FN, 'OP_EQUAL_VERIFY'), (FN, 'OP_POP0')],
}

SWAPS = [
    (r'>=', ['>', '<']), (r'<=', ['<', '>']), (r'(?<![<>=!])==', ['!=']), (r'!=', ['==']),
    (r'(?<![<>=-])>(?![=>])', ['>=']), (r'(?<![<>=])<(?![=<])', ['<=']),
    (r' \+ ', [' - ']), (r' - ', [' + ']), (r' and ', [' or ']), (r' or ', [' and ']),
    (r'\bnot ', ['']), (r'\bTrue\b', ['False']), (r'\bFalse\b', ['True']),
    (r' is not ', [' is ']), (r' in ', [' not in ']),
    (r"b'\\xff'", ["b'\\x00'"]), (r"b'\\x00'", ["b'\\xff'"]),
    (r'\b0\b', ['1']), (r'\b1\b', ['0', '2']), (r'\b2\b', ['1', '3']), (r'\b4\b', ['3', '5']),
    (r'\b8\b', ['7', '9']), (r'\b32\b', ['31', '33']), (r'\b64\b', ['63', '65']),
    (r'\b60\b', ['59', '61']), (r"'big'", ["'little'"]), (r"'little'", ["'big'"]),
    (r'\[-1\]', ['[0]']), (r'\[0\]', ['[-1]', '[1]']), (r'\[1\]', ['[0]']),
    (r'\.upper\(\)', ['']), (r'reversed\(', ['list(']), (r'\{\*\*', ['{**{}, **']),
]


def func_ranges(path):
    src = open(path).read()
    tree = ast.parse(src)
    out = {}
    for node in tree.body:
        if isinstance(node, (ast.FunctionDef,)):
            out[node.name] = (node.lineno, node.end_lineno, node)
        elif isinstance(node, ast.ClassDef):
            for sub in node.body:
                if isinstance(sub, ast.FunctionDef):
                    out['%s.%s' % (node.name, sub.name)] = (sub.lineno, sub.end_lineno, sub)
    return out, src.split('\n')


def doc_lines(node):
    """line numbers of the docstring and the signature (not mutated)"""
    skip = set()
    if node.body and isinstance(node.body[0], ast.Expr) and \
            isinstance(getattr(node.body[0], 'value', None), ast.Constant) and \
            isinstance(node.body[0].value.value, str):
        skip.update(range(node.body[0].lineno, node.body[0].end_lineno + 1))
    skip.update(range(node.lineno, node.body[0].lineno))
    return skip


def in_text(line, pos):
    """True where a mutation cannot matter: inside the message of a sert / vert / tert /
    yert call, or inside a `# ... #` comment of tapescript source held in a string."""
    st = line.lstrip()
    m = re.match(r'(sert|vert|tert|yert)\(', st)
    if m:
        # the message starts at the last top-level `, '` / `, f'` of the line
        k = max(line.rfind(", '"), line.rfind(', f\''), line.rfind(', "'))
        if k != -1 and pos > k:
            return True
    if st.startswith(("'", '"', "f'", 'f"')):
        return True         # continuation line of a message
    for c in re.finditer(r'#[^#]*#', line):
        if c.start() < pos < c.end():
            return True
    # a trailing Python comment (first `#` outside quotes)
    q = None
    for k, ch in enumerate(line):
        if q:
            if ch == q and line[k - 1] != '\\':
                q = None
        elif ch in '\'"':
            q = ch
        elif ch == '#':
            return pos > k
    return False


def generate(only=None, which=1):
    muts = []
    cache = {}
    for pid, targets in (TARGETS if which == 1 else TARGETS2).items():
        if only and pid != only:
            continue
        for rel, fname in targets:
            path = os.path.join(REPO, rel)
            if path not in cache:
                cache[path] = func_ranges(path)
            ranges, lines = cache[path]
            if fname not in ranges:
                print('target not found:', rel, fname, file=sys.stderr)
                continue
            lo, hi, node = ranges[fname]
            skip = doc_lines(node)
            for ln in range(lo, hi + 1):
                if ln in skip:
                    continue
                line = lines[ln - 1]
                stripped = line.strip()
                if not stripped or stripped.startswith('#') or stripped.startswith(("'", '"')):
                    continue
                code = line
                seen = set()
                for pat, reps in SWAPS:
                    for m in re.finditer(pat, code):
                        if in_text(code, m.start()):
                            continue
                        for rep in reps:
                            new = code[:m.start()] + rep + code[m.end():]
                            if new != code and new not in seen:
                                seen.add(new)
                                muts.append({'pid': pid, 'file': rel, 'func': fname, 'line': ln,
                                             'old': code, 'new': new})
                # statement deletion for simple statements (replaced by pass)
                if re.match(r'\s+(sert|vert|tert|yert)\(', line) and line.rstrip().endswith(')'):
                    ind = line[:len(line) - len(line.lstrip())]
                    muts.append({'pid': pid, 'file': rel, 'func': fname, 'line': ln,
                                 'old': code, 'new': ind + 'pass'})
    return muts


def scratch(tag):
    d = '/tmp/tsauto.%d.%s' % (os.getpid(), tag)
    shutil.rmtree(d, ignore_errors=True)
    os.makedirs(d)
    for name in ('tapescript', 'tests'):
        shutil.copytree(os.path.join(REPO, name), os.path.join(d, name),
                        ignore=shutil.ignore_patterns('__pycache__'))
    return d


DESELECT = ['tests/test_parsing.py::TestParsing::test_add_opcode_parsing_handlers_e2e',
            'tests/test_tools.py::TestTools::test_add_soft_fork_e2e',
            'tests/test_tools.py::TestTools::test_add_soft_fork_merklized_script_e2e']


def one(i, m, jobs):
    d = scratch(str(i))
    rec = dict(m)
    try:
        path = os.path.join(d, m['file'])
        lines = open(path).read().split('\n')
        assert lines[m['line'] - 1] == m['old']
        lines[m['line'] - 1] = m['new']
        open(path, 'w').write('\n'.join(lines))
        env = dict(os.environ, PYTHONDONTWRITEBYTECODE='1')
        r = subprocess.run([PY, '-c', 'import tapescript'], cwd=d, env=env, capture_output=True,
                           text=True, timeout=120)
        if r.returncode != 0:
            rec['stage'] = 'does_not_import'
            return rec
        cmd = [PY, '-m', 'pytest', '-q', '-x', '-p', 'no:cacheprovider', '--timeout=300']
        for t in DESELECT:
            cmd += ['--deselect', t]
        try:
            r = subprocess.run(cmd + ['tests'], cwd=d, env=env, capture_output=True, text=True,
                               timeout=900)
        except subprocess.TimeoutExpired:
            rec['stage'] = 'killed_by_tests'
            rec['note'] = 'test suite timed out'
            return rec
        if r.returncode != 0:
            rec['stage'] = 'killed_by_tests'
            return rec
        env2 = dict(env, VERIF_REPO=d, VERIF_SEED='0', VERIF_JOBS=str(jobs),
                    VERIF_EVIDENCE_DIR=d + '/ev', PYTHONHASHSEED='0')
        t0 = time.perf_counter()
        try:
            r = subprocess.run([PY, os.path.join(HERE, 'check.py'), m['pid']], env=env2,
                               capture_output=True, text=True, timeout=1500)
        except subprocess.TimeoutExpired:
            rec['stage'] = 'check_timed_out'
            return rec
        rec['check_exit'] = r.returncode
        rec['wall_s'] = round(time.perf_counter() - t0, 1)
        sig = re.findall(r'^(?:under python -O[^:]*: )?violation (\S+)', r.stdout, re.M)
        rec['signature'] = sig[:1]
        if r.returncode == 1:
            rec['stage'] = 'killed_by_check'
        elif r.returncode == 3:
            rec['stage'] = 'harness_error'
            rec['note'] = r.stdout[-300:]
        else:
            rec['stage'] = 'survived'
        mm = re.search(r'VIOLATION property=\S+ replay=(\S+)', r.stdout)
        if mm and '/replays/' in mm.group(1) and os.path.exists(mm.group(1)):
            os.unlink(mm.group(1))
        return rec
    finally:
        shutil.rmtree(d, ignore_errors=True)


def main():
    ap = argparse.ArgumentParser()
    ap.add_argument('--limit', type=int)
    ap.add_argument('--only')
    ap.add_argument('--par', type=int, default=4)
    ap.add_argument('--list', action='store_true')
    ap.add_argument('--set', type=int, default=1)
    a = ap.parse_args()
    muts = generate(a.only, a.set)
    # spread evenly over the targets when limited: every k-th mutant
    if a.limit and len(muts) > a.limit:
        step = len(muts) / a.limit
        muts = [muts[int(i * step)] for i in range(a.limit)]
    print('mutants:', len(muts), flush=True)
    if a.list:
        for m in muts:
            print(m['pid'], m['func'], m['line'], m['new'].strip())
        return 0
    jobs = max(2, 16 // a.par)
    out = []
    with ThreadPoolExecutor(max_workers=a.par) as ex:
        for rec in ex.map(lambda im: one(im[0], im[1], jobs), list(enumerate(muts))):
            out.append(rec)
            print(json.dumps({k: rec.get(k) for k in ('pid', 'func', 'line', 'stage', 'signature')}) +
                  ('  # ' + rec['new'].strip()[:90] if rec['stage'] in ('survived', 'harness_error') else ''),
                  flush=True)
    stages = {}
    for r in out:
        stages[r['stage']] = stages.get(r['stage'], 0) + 1
    surv = [r for r in out if r['stage'] == 'survived']
    summary = {'generated': len(muts), 'stages': stages,
               'survive_test_suite': stages.get('killed_by_check', 0) + stages.get('survived', 0) +
               stages.get('harness_error', 0) + stages.get('check_timed_out', 0),
               'killed_by_check': stages.get('killed_by_check', 0),
               'survived_the_check': len(surv)}
    if not a.only and not a.limit:
        with open(os.path.join(HERE, 'evidence', 'selftest-automutants%s.raw.json' %
                               ('' if a.set == 1 else str(a.set))), 'w') as f:
            json.dump({'summary': summary, 'survivors': surv,
                       'results': [{k: r.get(k) for k in ('pid', 'file', 'func', 'line', 'new', 'stage',
                                                          'signature')} for r in out]},
                      f, indent=1, sort_keys=True)
            f.write('\n')
    print('AUTOMUTANTS', json.dumps(summary))
    return 0


if __name__ == '__main__':
    sys.exit(main())
