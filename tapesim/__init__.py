"""tapesim -- deterministic simulation with fault injection for tapescript.

See /verif/DESIGN.md.  Import order matters: `tapesim.seams` must be imported
before anything imports `tapescript` (it pins the clock first).
"""
