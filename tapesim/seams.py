"""Seams: the simulator owns the wall clock and the entropy source of the
tapescript package under test.  No /repo hook is needed: `time.time` is pinned
*before* the package is imported (both `functions.py` and `tools.py` do
`from time import time`), and stays pinned for the life of the process, so a
refactor to `import time; time.time()` is still under control.  The harness
itself only ever uses time.perf_counter / time.monotonic.
"""
import os
import sys
import time as _time

REPO = os.environ.get('VERIF_REPO', '/repo')


class HarnessError(Exception):
    """A problem of the machinery, never a verdict about a property."""


class SimClock:
    """Per-process simulated clock.  Global simulated time `tau` is an integer
    number of microseconds; each node has its own view of it.  Every read is an
    event: it is recorded, it advances tau by the per-read latency and it fires
    the clock faults that the plan scheduled at that read index of the current
    call."""

    DEFAULT_US = 1_700_000_000_000_000

    def __init__(self):
        self.reset()

    def reset(self):
        self.tau = 0
        self.nodes = {}
        self.call = None
        self.loose = []           # reads made outside begin_call/end_call
        self.latency_us = 0
        self.fired = {}           # fault kind -> times actually fired
        self.n_reads = 0
        self.cur = None

    def add_node(self, name, epoch0_s=1_700_000_000, offset_us=0, drift_ppm=0,
                 ret='float', frac=True):
        self.nodes[name] = {
            'epoch0_us': epoch0_s * 1_000_000, 'offset_us': offset_us,
            'drift_ppm': drift_ppm, 'ret': ret, 'frac': frac, 'frozen': None,
        }

    def local_us(self, name) -> int:
        n = self.nodes[name]
        if n['frozen'] is not None:
            return n['frozen']
        return n['epoch0_us'] + n['offset_us'] + self.tau + \
            (self.tau * n['drift_ppm']) // 1_000_000

    def local_s(self, name) -> int:
        return self.local_us(name) // 1_000_000

    def step(self, name, delta_us):
        n = self.nodes[name]
        if n['frozen'] is not None:
            n['frozen'] += delta_us
        n['offset_us'] += delta_us

    def freeze(self, name):
        n = self.nodes[name]
        if n['frozen'] is None:
            n['frozen'] = self.local_us(name)

    def unfreeze(self, name):
        n = self.nodes[name]
        if n['frozen'] is not None:
            # resume from the frozen value: the node lost the time it slept
            cur = n['frozen']
            n['frozen'] = None
            n['offset_us'] += cur - self.local_us(name)

    def _fire(self, kind):
        self.fired[kind] = self.fired.get(kind, 0) + 1

    def begin_call(self, node, faults=()):
        if self.call is not None:
            raise HarnessError('nested clock call')
        self.cur = node
        self.call = {'node': node, 'reads': [], 'all': [], 'faults': list(faults)}

    def end_call(self):
        c = self.call
        self.call = None
        self.cur = None
        self.last_call = c      # ('would': values of reads that were made to fail)
        return c['reads']

    def value(self, name):
        n = self.nodes[name]
        us = self.local_us(name)
        if n['ret'] == 'int':
            return us // 1_000_000
        if n['frac']:
            return us / 1_000_000
        return float(us // 1_000_000)

    def read(self):
        """The function bound to tapescript's `time`."""
        self.n_reads += 1
        c = self.call
        if c is None:
            if self.cur is not None and self.cur in self.nodes:
                v = self.value(self.cur)
            else:
                v = self.DEFAULT_US / 1_000_000
            self.loose.append(v)
            return v
        k = len(c['reads'])
        for f in list(c['faults']):
            if f['at_read'] == k:
                kind = f['kind']
                if kind == 'step':
                    self.step(c['node'], f['delta_us'])
                    self._fire('step_back' if f['delta_us'] < 0 else 'step_forward')
                    if k > 0:
                        self._fire('step_between_reads')
                elif kind == 'freeze':
                    self.freeze(c['node'])
                    self._fire('freeze')
                elif kind == 'unfreeze':
                    self.unfreeze(c['node'])
                    self._fire('unfreeze')
                elif kind == 'fail':
                    # the system call fails, once (EIO-like); what it would have
                    # returned is kept for the oracle
                    c['faults'].remove(f)
                    v = self.value(c['node'])
                    c.setdefault('would', []).append(v)
                    c['all'].append(v)
                    self._fire('clock_read_failed')
                    raise OSError(5, 'simulated clock read failure')
                else:
                    raise HarnessError(f'unknown clock fault {kind}')
        v = self.value(c['node'])
        c['reads'].append(v)
        c['all'].append(v)
        self.tau += self.latency_us
        return v


class SimEntropy:
    def __init__(self):
        self.reset(0)

    def reset(self, seed):
        from .prng import Rng
        self.rng = Rng(seed)
        self.calls = 0

    def token_bytes(self, n=32):
        self.calls += 1
        return self.rng.bytes(n)


CLOCK = SimClock()
ENTROPY = SimEntropy()


def _sim_time():
    return CLOCK.read()


_sim_time.__name__ = 'time'
_real_time = _time.time
_time.time = _sim_time           # pinned before tapescript is imported
_time.time_ns = lambda: int(CLOCK.read() * 1_000_000_000)

# Every other route to the wall clock is owned as well: a library that asks
# `datetime.now()`, `time.gmtime()` or `clock_gettime(CLOCK_REALTIME)` instead of
# `time()` is as right as before, and must see the same simulated clock (otherwise a
# correct refactoring would look like a violation).  Monotonic / performance counters
# are not wall clocks and stay real (the harness uses them for its budgets).
import datetime as _dt                               # noqa: E402

_real_datetime = _dt.datetime
_real_date = _dt.date


class _SimDateTime(_real_datetime):
    @classmethod
    def now(cls, tz=None):
        return cls.fromtimestamp(CLOCK.read(), tz)

    @classmethod
    def utcnow(cls):
        return cls.fromtimestamp(CLOCK.read(), _dt.timezone.utc).replace(tzinfo=None)

    @classmethod
    def today(cls):
        return cls.fromtimestamp(CLOCK.read())


class _SimDate(_real_date):
    @classmethod
    def today(cls):
        return _SimDateTime.fromtimestamp(CLOCK.read()).date()


_SimDateTime.__name__ = _SimDateTime.__qualname__ = 'datetime'
_SimDate.__name__ = _SimDate.__qualname__ = 'date'
_dt.datetime = _SimDateTime
_dt.date = _SimDate


def _wrap_default_now(fn):
    def wrapped(*a):
        return fn(CLOCK.read()) if not a or a[0] is None else fn(*a)
    wrapped.__name__ = fn.__name__
    return wrapped


_time.gmtime = _wrap_default_now(_time.gmtime)
_time.localtime = _wrap_default_now(_time.localtime)
_time.ctime = _wrap_default_now(_time.ctime)
_real_strftime = _time.strftime
_time.strftime = lambda fmt, t=None: _real_strftime(fmt, _time.localtime() if t is None else t)
if hasattr(_time, 'clock_gettime'):
    _real_cg, _real_cgns = _time.clock_gettime, _time.clock_gettime_ns
    _time.clock_gettime = lambda cid: CLOCK.read() if cid == _time.CLOCK_REALTIME else _real_cg(cid)
    _time.clock_gettime_ns = lambda cid: int(CLOCK.read() * 1_000_000_000) \
        if cid == _time.CLOCK_REALTIME else _real_cgns(cid)

if 'tapescript' in sys.modules:
    raise HarnessError('tapescript imported before the clock seam was pinned')
sys.path.insert(0, REPO)
import tapescript                                    # noqa: E402
import tapescript.functions as F                     # noqa: E402
import tapescript.tools as T                         # noqa: E402
import tapescript.parsing as P                       # noqa: E402
import tapescript.AMHL as AMHLmod                    # noqa: E402
from tapescript.errors import ScriptExecutionError   # noqa: E402,F401
from tapescript.errors import SyntaxError as TapeSyntaxError   # noqa: E402

# tapescript's own errors derive from BaseException, not Exception
LIB_ERRORS = (Exception, ScriptExecutionError, TapeSyntaxError)

if not os.path.realpath(tapescript.__file__).startswith(os.path.realpath(REPO) + os.sep):
    raise HarnessError(f'tapescript imported from {tapescript.__file__}, not {REPO}')

# entropy seams (module attributes)
for _mod in (F, AMHLmod):
    if hasattr(_mod, 'token_bytes'):
        _mod.token_bytes = ENTROPY.token_bytes
import secrets as _secrets                           # noqa: E402
import os as _os                                     # noqa: E402
_secrets.token_bytes = ENTROPY.token_bytes

PRISTINE_FLAGS = dict(F.flags)


def check_seams():
    """Behavioural proof that the simulator owns clock and entropy.  Raises
    HarnessError if a refactor of /repo moved a seam."""
    CLOCK.reset()
    CLOCK.add_node('probe', epoch0_s=123_456_789, frac=False)
    CLOCK.begin_call('probe')
    try:
        _, _, cache = F.run_script(b'')
    finally:
        reads = CLOCK.end_call()
    if cache.get('timestamp') != 123_456_789 or not reads:
        raise HarnessError('clock seam unbound in run_script')
    CLOCK.begin_call('probe')
    try:
        s = T.make_ptlc_lock(b'\x01' * 32, b'\x02' * 32, timeout=10)
    finally:
        reads = CLOCK.end_call()
    if not reads:
        # (behavioural only: how the builder spells the deadline is not the
        # seam check's business)
        raise HarnessError('clock seam unbound in tools')
    ENTROPY.reset(7)
    before = ENTROPY.calls
    _, st, _ = F.run_script(T.compile_script('push d8 random'))
    if ENTROPY.calls == before:
        raise HarnessError('entropy seam unbound in OP_RANDOM')
    CLOCK.reset()


def reset_world(entropy_seed=0):
    """Start of every run: pristine clock, entropy and thresholds."""
    CLOCK.reset()
    ENTROPY.reset(entropy_seed)
    # other routes to entropy a (correct) library might take: the OS source and the
    # process-wide `random` generator.  Runs execute in forked children only, so the
    # parent's own use of os.urandom (temporary names, multiprocessing) is untouched.
    _os.urandom = ENTROPY.token_bytes
    import random as _random
    _random.seed(entropy_seed)
    for k in list(F.flags):
        if k not in PRISTINE_FLAGS:
            del F.flags[k]
    F.flags.update(PRISTINE_FLAGS)
    # runs of one batch share a process: leave no plugin of an earlier run behind
    for scope in ('signature_extensions', 'check_template'):
        try:
            while F._plugins.get(scope):
                F.remove_plugin(scope, F._plugins[scope][0])
        except Exception:
            pass
