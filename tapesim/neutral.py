"""Behaviour-preserving refactorings of /repo ("neutral mutants"): the other
half of the sensitivity question.  Each keeps every claimed property true; every
check listed for it must stay green (exit 0, no VIOLATION, no HARNESS-ERROR).

  ./check --selftest neutral

A check that reports one of these has an oracle that encodes an implementation
detail (which instruction reads the clock how often, how a builder spells a
constant, which definition number a lock uses, which libsodium call verifies)."""

FN = 'tapescript/functions.py'
TL = 'tapescript/tools.py'
AM = 'tapescript/AMHL.py'

NEUTRAL = [
    dict(name='cts_reads_clock_before_validating', file=FN, pids=['C14', 'C15', 'C16'],
         old="    constraint = stack.get()\n    sert(type(constraint) is bytes and len(constraint) > 0,\n        'OP_CHECK_TIMESTAMP malformed constraint encountered')",
         new="    now_ = int(time())\n    constraint = stack.get()\n    sert(type(constraint) is bytes and len(constraint) > 0,\n        'OP_CHECK_TIMESTAMP malformed constraint encountered')",
         also=[("    difference = cache['timestamp'] - int(time())\n", "    difference = cache['timestamp'] - now_\n")]),
    dict(name='epoch_reads_clock_twice', file=FN, pids=['C16'],
         old="    if constraint - int(time()) >= tape.flags['epoch_threshold']:",
         new="    time()\n    if constraint - int(time()) >= tape.flags['epoch_threshold']:"),
    dict(name='run_script_reads_clock_only_without_timestamp', file=FN, pids=['C14', 'C15', 'C16', 'C19'],
         old="    cache = {'timestamp': int(time()), **cache_vals}",
         new="    cache = {**cache_vals}\n    if 'timestamp' not in cache:\n        cache['timestamp'] = int(time())"),
    dict(name='run_script_reads_clock_once_more_first', file=FN, pids=['C14', 'C15', 'C16'],
         old="    cache = {'timestamp': int(time()), **cache_vals}",
         new="    started_ = time()\n    cache = {'timestamp': int(time()), **cache_vals}"),
    dict(name='clock_through_datetime', file=FN, pids=['C14', 'C15'],
         old="    difference = cache['timestamp'] - int(time())\n",
         new="    from datetime import datetime as _d\n    difference = cache['timestamp'] - int(_d.now().timestamp())\n"),
    dict(name='deadline_pushed_as_8_byte_hex', file=TL, pids=['C15', 'C18'], count=5,
         old="            push d{int(time())+timeout}",
         new="            push x{(int(time())+timeout).to_bytes(8, 'big').hex()}"),
    dict(name='chain_lock_uses_definition_3', file=TL, pids=['C14'],
         old="        def 0 {{\n", new="        def 3 {{\n",
         also=[("                @d call d0", "                @d call d3"),
               ("        push x{root_pubkey.hex()} call d0", "        push x{root_pubkey.hex()} call d3")]),
    dict(name='check_sig_through_crypto_sign_open', file=FN, pids=['C14', 'C15', 'C17', 'C18'],
         old="        vkey.verify(message, sig)\n        stack.put(b'\\xff')\n    except BadSignatureError:",
         new="        nacl.bindings.crypto_sign_open(sig + message, bytes(vkey))\n        stack.put(b'\\xff')\n    except BadSignatureError:"),
    dict(name='run_auth_scripts_copies_its_cache_argument', file=FN, pids=['C14', 'C19'],
         old="    try:\n        # run the first script and reuse some of its return values\n",
         new="    cache_vals = {**cache_vals}\n    try:\n        # run the first script and reuse some of its return values\n"),
    dict(name='seedless_samples_from_os_urandom', file=AM, pids=['C18'],
         old="seed = seed if seed else token_bytes(32)",
         new="seed = seed if seed else __import__('os').urandom(32)"),
    dict(name='nop_guards_the_item_count_first', file=FN, pids=['C20'],
         old="    sert(count >= 0, 'NOP count must not be negative')\n\n    for _ in range(count):\n        stack.get()",
         new="    sert(count >= 0, 'NOP count must not be negative')\n    sert(count <= len(stack), 'NOP count exceeds the stack')\n\n    for _ in range(count):\n        stack.get()"),
    dict(name='scalar_sum_by_integer_arithmetic', file=AM, pids=['C18'],
         old="        sum = scalars[0]\n        for i in range(1, len(scalars)):\n            sum = nacl.bindings.crypto_core_ed25519_scalar_add(sum, scalars[i])\n        return sum",
         new="        L_ = 2 ** 252 + 27742317777372353535851937790883648493\n        tot = 0\n        for s_ in scalars:\n            tot = (tot + int.from_bytes(s_, 'little')) % L_\n        return tot.to_bytes(32, 'little')"),
    dict(name='add_plugin_rebinds_the_list', file=FN, pids=['C19'],
         old="    if plugin not in _plugins[scope]:\n        _plugins[scope].append(plugin)",
         new="    if plugin not in _plugins[scope]:\n        _plugins[scope] = _plugins[scope] + [plugin]"),
    dict(name='remove_plugin_by_comprehension', file=FN, pids=['C19'],
         old="    if plugin in _plugins[scope]:\n        _plugins[scope].remove(plugin)",
         new="    if plugin in _plugins[scope]:\n        k_ = _plugins[scope].index(plugin)\n        _plugins[scope] = [p for j_, p in enumerate(_plugins[scope]) if j_ != k_]"),
    dict(name='fork_handler_takes_upper_case_prefixes_too', file=TL, pids=['C20'],
         old="        yert(val[0] in ('d', 'x'),\n            f'{opname} - argument must be prefaced with d or x - symbol {symbol_index}')\n        match val[0]:",
         new="        yert(val[0].lower() in ('d', 'x'),\n            f'{opname} - argument must be prefaced with d or x - symbol {symbol_index}')\n        match val[0].lower():"),
    dict(name='decrypt_adapter_without_the_vm', file=TL, pids=['C17', 'C18'],
         old="    _, stack, _ = run_script(\n        adapter_witness +\n        make_adapter_decrypt(tweak).bytes\n    )\n    s = stack.get()\n    RT = stack.get()\n    return RT + s",
         new="    sa_, R_ = adapter_witness[2:34], adapter_witness[36:68]\n    t_ = clamp_scalar(tweak)\n    RT = aggregate_points((R_, derive_point_from_scalar(t_)))\n    s = nacl.bindings.crypto_core_ed25519_scalar_add(sa_, t_)\n    return RT + s"),
    dict(name='htlc_builder_reads_the_clock_once_more', file=TL, pids=['C15'],
         old="    if preimage and not digest:\n        digest = sha256(preimage).digest()",
         new="    time()\n    if preimage and not digest:\n        digest = sha256(preimage).digest()", count=2),
    dict(name='certificate_signed_without_the_vm', file=TL, pids=['C14'],
         old="    _, stack, _ = run_script(compile_script(f'''\n        push x{cert.preimage().hex()} push x{root_skey.hex()} sign_stack\n    '''))\n    assert len(stack) == 1\n    cert.signature = stack.get()\n    return cert",
         new="    cert.signature = SigningKey(root_skey).sign(cert.preimage()).signature\n    return cert"),
    dict(name='single_sig_lock_verifies_then_pushes_true', file=TL, pids=['C17', 'C18'],
         old="    return Script.from_src(f'push x{pubkey.hex()} check_sig x{sigflags}')",
         new="    return Script.from_src(f'push x{pubkey.hex()} check_sig_verify x{sigflags} true')"),
    dict(name='htlc_builder_announces_its_deprecation', file=TL, pids=['C15'],
         old="    if preimage and not digest:\n        digest = sha256(preimage).digest()",
         new="    __import__('warnings').warn('use the htlc2 builders', DeprecationWarning)\n    if preimage and not digest:\n        digest = sha256(preimage).digest()", count=2),
    dict(name='plugins_kept_in_a_copy_per_call', file=FN, pids=['C19'],
         old="    tape.plugins = {**_plugins, **plugins}\n    run_tape(tape, stack, cache, additional_flags=additional_flags)",
         new="    tape.plugins = {k: list(v) for k, v in {**_plugins, **plugins}.items()}\n    run_tape(tape, stack, cache, additional_flags=additional_flags)"),
]
