"""Self-tests of the machinery.

  ./check --selftest determinism [PID]   many seeds twice, across processes,
                                         worker counts and PYTHONHASHSEEDs
  ./check --selftest mutants [PID]       sensitivity: hand-written mutants of
                                         /repo that survive the 267 tests must
                                         be reported by the quick check
  ./check --selftest seeded [PID]        same for the independently written
                                         breaking changes under /verif/seeded

Scratch copies live under /tmp/tsmut.<pid>.* and are removed immediately.
Results go to /verif/evidence/selftest-<kind>.json (not a property evidence
file)."""
import json
import os
import re
import shutil
import subprocess
import sys
import time as _t

from . import core
from .seams import HarnessError

HERE = core.VERIF
PY = sys.executable
ALWAYS_FAIL = {
    'tests/test_parsing.py::TestParsing::test_add_opcode_parsing_handlers_e2e',
    'tests/test_tools.py::TestTools::test_add_soft_fork_e2e',
    'tests/test_tools.py::TestTools::test_add_soft_fork_merklized_script_e2e',
}


def scratch_copy(tag):
    d = '/tmp/tsmut.%d.%s' % (os.getpid(), tag)
    shutil.rmtree(d, ignore_errors=True)
    os.makedirs(d)
    src = os.environ.get('VERIF_REPO', '/repo')
    for name in ('tapescript', 'tests'):
        shutil.copytree(os.path.join(src, name), os.path.join(d, name),
                        ignore=shutil.ignore_patterns('__pycache__'))
    return d


def run_suite(d):
    """Returns the set of failing test ids in scratch copy d."""
    out = subprocess.run(
        [PY, '-m', 'pytest', '-q', '-p', 'no:cacheprovider', '-x', '--timeout=600',
         '--deselect', 'tests/test_parsing.py::TestParsing::test_add_opcode_parsing_handlers_e2e',
         '--deselect', 'tests/test_tools.py::TestTools::test_add_soft_fork_e2e',
         '--deselect', 'tests/test_tools.py::TestTools::test_add_soft_fork_merklized_script_e2e',
         'tests'],
        cwd=d, capture_output=True, text=True, timeout=1800,
        env=dict(os.environ, PYTHONDONTWRITEBYTECODE='1'))
    failed = set(re.findall(r'^(?:FAILED|ERROR) (\S+)', out.stdout, re.M))
    if out.returncode not in (0, 1):
        failed.add('pytest-exit-%d' % out.returncode)
    if out.returncode == 1 and not failed:
        failed.add('unknown-failure')
    return failed - ALWAYS_FAIL, out.stdout[-1500:]


def run_check_on(d, pid, runs=None, seed=0):
    env = dict(os.environ, VERIF_REPO=d, VERIF_SEED=str(seed),
               PYTHONDONTWRITEBYTECODE='1', VERIF_EVIDENCE_DIR='/tmp/tsmut.%d.ev' % os.getpid())
    cmd = [PY, os.path.join(HERE, 'check.py'), pid]
    if runs:
        cmd += ['--runs', str(runs)]
    t0 = _t.perf_counter()
    out = subprocess.run(cmd, env=env, capture_output=True, text=True, timeout=3600)
    return out.returncode, out.stdout, _t.perf_counter() - t0


def apply_subst(d, m):
    path = os.path.join(d, m['file'])
    s = open(path).read()
    n = s.count(m['old'])
    want = m.get('count', 1)
    if n != want:
        raise HarnessError('mutant %s: pattern occurs %d times, expected %d' % (m['name'], n, want))
    s = s.replace(m['old'], m['new'])
    open(path, 'w').write(s)


def mutants(pid_filter, seed):
    from .mutants import MUTANTS
    results = []
    for m in MUTANTS:
        if pid_filter and m['pid'] != pid_filter:
            continue
        d = scratch_copy(m['name'])
        try:
            try:
                apply_subst(d, m)
            except HarnessError as e:
                # the pattern no longer matches the tree (a later fix: commit touched
                # those lines): reported, counted as a mutant that was not killed
                rec = {'pid': m['pid'], 'name': m['name'], 'survives_tests': True,
                       'killed': False, 'note': str(e)}
                results.append(rec)
                print(json.dumps(rec), flush=True)
                continue
            failed, tail = run_suite(d)
            rec = {'pid': m['pid'], 'name': m['name'], 'survives_tests': not failed,
                   'tests_failed': sorted(failed)[:3]}
            if not failed or m.get('force'):
                rc, out, wall = run_check_on(d, m['pid'], seed=seed)
                sigs = re.findall(r'^(?:under python -O[^:]*: )?violation (\S+)', out, re.M)
                rec.update(check_exit=rc, wall_s=round(wall, 1), signature=sigs[:1],
                           killed=(rc == 1 and 'VIOLATION property=' + m['pid'] in out))
                if rc == 3:
                    rec['harness_error'] = out[-400:]
                # the replay must reproduce on the mutant, in a fresh process
                mm = re.search(r'VIOLATION property=\S+ replay=(\S+)', out)
                if mm:
                    env = dict(os.environ, VERIF_REPO=d)
                    rp = subprocess.run([PY, os.path.join(HERE, 'check.py'), m['pid'],
                                         '--replay', mm.group(1)], env=env,
                                        capture_output=True, text=True, timeout=600)
                    rec['replay_reproduces'] = rp.returncode == 1
                    if os.path.dirname(mm.group(1)).endswith('replays'):
                        os.unlink(mm.group(1))
            results.append(rec)
            print(json.dumps(rec), flush=True)
        finally:
            shutil.rmtree(d, ignore_errors=True)
    shutil.rmtree('/tmp/tsmut.%d.ev' % os.getpid(), ignore_errors=True)
    return results


def seeded(pid_filter, seed):
    """Apply each /verif/seeded/<id>/patch.diff to a scratch copy and run the
    quick check of the property it breaks."""
    results = []
    base = os.path.join(HERE, 'seeded')
    for name in sorted(os.listdir(base)) if os.path.isdir(base) else []:
        meta_p = os.path.join(base, name, 'meta.json')
        if not os.path.exists(meta_p):
            continue
        meta = json.load(open(meta_p))
        pid = meta['property']
        if pid_filter and pid != pid_filter:
            continue
        if meta.get('not_a_violation_of_the_statement'):
            # kept for the record: the agent's change does not break the property as it
            # is stated (reason in the meta file and in DESIGN 8.4); not scored
            rec = {'seeded': name, 'pid': pid, 'killed': None,
                   'note': 'not a violation of the property as stated: ' +
                           meta['not_a_violation_of_the_statement'][:200]}
            results.append(rec)
            print(json.dumps(rec), flush=True)
            continue
        d = scratch_copy(name)
        try:
            ap = subprocess.run(['patch', '-p1', '-s', '-i', os.path.join(base, name, 'patch.diff')],
                                cwd=d, capture_output=True, text=True)
            rec = {'seeded': name, 'pid': pid}
            if ap.returncode != 0:
                # (later fix: commits in /repo may touch the same lines; the patch
                # then needs porting -- reported, and counted as not killed)
                rec.update(killed=False, note='patch does not apply to the current tree: ' +
                           (ap.stdout + ap.stderr)[:200])
                results.append(rec)
                print(json.dumps(rec), flush=True)
                continue
            if pid in core.PROPS:
                # VERIF_SELFTEST_SEEDS=1,2,3: every listed seed must catch the change
                # (detection by one lucky draw is not detection)
                seeds = [int(x) for x in os.environ.get('VERIF_SELFTEST_SEEDS', str(seed)).split(',')]
                per = {}
                for sd in seeds:
                    rc, out, wall = run_check_on(d, pid, seed=sd)
                    sigs = re.findall(r'^(?:under python -O[^:]*: )?violation (\S+)', out, re.M)
                    per[str(sd)] = (rc == 1 and 'VIOLATION property=' + pid in out)
                    rec.update(check_exit=rc, wall_s=round(wall, 1), signature=sigs[:1])
                    mm = re.search(r'VIOLATION property=\S+ replay=(\S+)', out)
                    if mm and os.path.dirname(mm.group(1)).endswith('replays'):
                        os.unlink(mm.group(1))
                rec['killed'] = all(per.values())
                if len(seeds) > 1:
                    rec['per_seed'] = per
            else:
                rec.update(killed=None, note='property not claimed (not applicable to this technique)')
            results.append(rec)
            print(json.dumps(rec), flush=True)
        finally:
            shutil.rmtree(d, ignore_errors=True)
    shutil.rmtree('/tmp/tsmut.%d.ev' % os.getpid(), ignore_errors=True)
    return results


def neutral(pid_filter, seed):
    """Behaviour-preserving refactorings: the suite must still pass and every listed
    check must stay green."""
    from .neutral import NEUTRAL
    results = []
    for m in NEUTRAL:
        d = scratch_copy(m['name'])
        try:
            rec = {'name': m['name'], 'checks': {}}
            try:
                apply_subst(d, m)
                for old, new in m.get('also', []):
                    apply_subst(d, dict(m, old=old, new=new, count=1))
            except HarnessError as e:
                rec['note'] = str(e)
                rec['ok'] = None
                results.append(rec)
                print(json.dumps(rec), flush=True)
                continue
            failed, tail = run_suite(d)
            rec['tests_failed'] = sorted(failed)[:3]
            ok = not failed
            for pid in m['pids']:
                if pid_filter and pid != pid_filter:
                    continue
                rc, out, wall = run_check_on(d, pid, seed=seed)
                rec['checks'][pid] = rc
                if rc != 0:
                    ok = False
                    rec.setdefault('alarms', []).append(
                        (re.findall(r'^(?:under python -O[^:]*: )?violation (\S+)', out, re.M) or
                         [out[-200:]])[0])
                mm = re.search(r'VIOLATION property=\S+ replay=(\S+)', out)
                if mm and os.path.dirname(mm.group(1)).endswith('replays') and os.path.exists(mm.group(1)):
                    os.unlink(mm.group(1))
            rec['ok'] = ok
            results.append(rec)
            print(json.dumps(rec), flush=True)
        finally:
            shutil.rmtree(d, ignore_errors=True)
    shutil.rmtree('/tmp/tsmut.%d.ev' % os.getpid(), ignore_errors=True)
    return results


def determinism(pid_filter, seed, jobs, n=512):
    """Each sampled (property, idx): twice in this process, in two fresh
    interpreters with different PYTHONHASHSEEDs.  Digests must be identical."""
    from concurrent.futures import ProcessPoolExecutor
    import multiprocessing as mp
    results = []
    ok = True
    for pid in core.PROPS:
        if pid_filter and pid != pid_filter:
            continue
        try:
            mod = core.load(pid)
        except ImportError:
            continue
        idxs = list(range(n))
        t0 = _t.perf_counter()
        # (a) in-process twice
        a, b = {}, {}
        for i in idxs[:64]:
            plan = mod.gen_plan(core.run_seed(seed, pid, i), i, 'quick')
            a[i] = core.execute(mod, plan)['digest']
            b[i] = core.execute(mod, plan)['digest']
        # (b) fresh interpreters, different hash seeds, chunks in parallel
        def chunks(hs, nchunks):
            step = (len(idxs) + nchunks - 1) // nchunks
            return [(pid, seed, idxs[k:k + step], hs) for k in range(0, len(idxs), step)]
        ctx = mp.get_context('fork')
        with ProcessPoolExecutor(max_workers=jobs, mp_context=ctx) as ex:
            c = {}
            for part in ex.map(_fresh, chunks(1, jobs)):
                c.update(part)
            d = {}
            for part in ex.map(_fresh, chunks(987654, max(1, jobs // 2 - 1))):
                d.update(part)
        mism = [i for i in idxs if c[i] != d[i] or (i in a and (a[i] != b[i] or a[i] != c[i]))]
        rec = {'pid': pid, 'seeds': len(idxs), 'in_process_twice': len(a),
               'mismatches': len(mism), 'first': mism[:3],
               'wall_s': round(_t.perf_counter() - t0, 1)}
        ok = ok and not mism
        results.append(rec)
        print(json.dumps(rec), flush=True)
    return results, ok


def _fresh(args):
    pid, seed, idxs, hs = args
    env = dict(os.environ, PYTHONHASHSEED=str(hs), VERIF_SEED=str(seed))
    out = subprocess.run([PY, os.path.join(HERE, 'check.py'), pid, '--digest',
                          ','.join(str(i) for i in idxs)],
                         env=env, capture_output=True, text=True, timeout=3600)
    if out.returncode != 0:
        raise HarnessError('digest subprocess failed: ' + out.stderr[-1500:])
    return {int(k): v for k, v in json.loads(out.stdout.strip().splitlines()[-1]).items()}


def main(kind, pid, seed, jobs):
    os.makedirs(os.path.join(HERE, 'evidence'), exist_ok=True)
    if kind == 'mutants':
        res = mutants(pid, seed)
        surv = [r for r in res if r['survives_tests']]
        killed = [r for r in surv if r.get('killed')]
        summary = {'mutants': len(res), 'survive_test_suite': len(surv),
                   'killed_by_checks': len(killed),
                   'missed': [r['name'] for r in surv if not r.get('killed')]}
        ok = len(killed) == len(surv)
    elif kind == 'seeded':
        res = seeded(pid, seed)
        cl = [r for r in res if r.get('killed') is not None]
        summary = {'seeded': len(res), 'claimed': len(cl),
                   'killed': len([r for r in cl if r['killed']]),
                   'missed': [r['seeded'] for r in cl if not r['killed']]}
        ok = not summary['missed']
    elif kind == 'neutral':
        res = neutral(pid, seed)
        bad = [r['name'] for r in res if r['ok'] is False]
        summary = {'refactorings': len(res), 'all_checks_green': len([r for r in res if r['ok']]),
                   'alarmed': bad, 'not_applicable_any_more': [r['name'] for r in res if r['ok'] is None]}
        ok = not bad
    elif kind == 'determinism':
        res, ok = determinism(pid, seed, jobs)
        summary = {'ok': ok}
    else:
        print('unknown selftest', kind)
        return 2
    if kind == 'seeded' and os.environ.get('VERIF_SELFTEST_SEEDS'):
        kind = 'seeded-multiseed'
        summary['seeds'] = os.environ['VERIF_SELFTEST_SEEDS']
        summary['missed_under_some_seed'] = {
            r['seeded']: [sd for sd, k in r.get('per_seed', {}).items() if not k]
            for r in res if r.get('killed') is False}
    if not pid:
        with open(os.path.join(HERE, 'evidence', 'selftest-%s.json' % kind), 'w') as f:
            json.dump({'summary': summary, 'results': res}, f, indent=1, sort_keys=True)
            f.write('\n')
    if kind == 'seeded-multiseed' and not pid:
        # (the multi-seed run subsumes the single-seed one)
        with open(os.path.join(HERE, 'evidence', 'selftest-seeded.json'), 'w') as f:
            json.dump({'summary': summary, 'results': res}, f, indent=1, sort_keys=True)
            f.write('\n')
    print('SELFTEST %s: %s' % (kind, json.dumps(summary)))
    return 0 if ok else 1
