"""Shared machinery: run results, isolation, batches, minimisation, replay,
known findings, evidence.  See DESIGN.md section 2."""
import copy
import hashlib
import importlib
import json
import os
import pickle
import signal
import sys
import time as _t
import traceback

from .prng import mix
from .seams import HarnessError, LIB_ERRORS

VERIF = os.path.dirname(os.path.dirname(os.path.abspath(__file__)))
PROPS = ['C14', 'C15', 'C16', 'C17', 'C18', 'C19', 'C20']
RUN_TIMEOUT_S = 60


def canon(obj) -> str:
    return json.dumps(obj, sort_keys=True, separators=(',', ':'), default=_jd)


def _jd(o):
    if isinstance(o, (bytes, bytearray)):
        return 'x' + bytes(o).hex()
    if isinstance(o, (set, frozenset)):
        return sorted(o)
    if isinstance(o, tuple):
        return list(o)
    raise TypeError(type(o))


def digest(obj) -> str:
    return hashlib.sha256(canon(obj).encode()).hexdigest()


def load(pid):
    return importlib.import_module('tapesim.props.' + pid.lower())


def run_seed(seed: int, pid: str, idx: int) -> int:
    return mix(seed, pid, idx)


# ---------------------------------------------------------------- results

class Run:
    """Collector handed to a property's execute(); everything a run reports
    goes through here so that all properties produce the same record."""

    def __init__(self):
        self.trace = []
        self.violations = []
        self.evals = 0
        self.dont_care = 0
        self.cells = set()
        self.probes = {}
        self.faults = {}
        self.sched = []
        self.aux_auth_raised = 0
        self.sim_us = 0
        self.fault_free = True
        self.sample = None

    def ev(self, *item):
        """append an event to the trace (JSON-able)"""
        self.trace.append(list(item))

    def probe(self, name, n=1):
        self.probes[name] = self.probes.get(name, 0) + n

    def fault(self, kind, n=1):
        self.faults[kind] = self.faults.get(kind, 0) + n
        self.fault_free = False

    def cell(self, *parts):
        self.cells.add('|'.join(str(p) for p in parts))

    def judge(self, invariant, observed, model, sig_fn, step=None, detail=None):
        """Compare an observed verdict with the model's ('ACCEPT' / 'REJECT' /
        'EITHER').  sig_fn(observed, model) -> signature string, only called
        on a mismatch."""
        self.evals += 1
        if model == 'EITHER':
            self.dont_care += 1
            return True
        if observed == model:
            return True
        self.violation(invariant, sig_fn(observed, model), step,
                       dict(detail or {}, observed=observed, model=model))
        return False

    def check(self, invariant, ok, signature, step=None, detail=None):
        self.evals += 1
        if not ok:
            self.violation(invariant, signature, step, detail)
        return ok

    def violation(self, invariant, signature, step=None, detail=None):
        self.violations.append({'invariant': invariant, 'signature': signature,
                                'step': step, 'detail': detail or {}})

    def result(self):
        return {
            'digest': digest(self.trace),
            'violations': self.violations,
            'evals': self.evals, 'dont_care': self.dont_care,
            'cells': sorted(self.cells), 'probes': self.probes,
            'faults': self.faults,
            'schedule': hashlib.sha256(canon(self.sched).encode()).hexdigest()[:16],
            'aux_auth_raised': self.aux_auth_raised, 'sim_us': self.sim_us,
            'fault_free': self.fault_free, 'sample': self.sample,
            'trace_len': len(self.trace),
        }


class _Timeout(Exception):
    pass


class RealCodeRaised(Exception):
    """A call into /repo code that the simulation makes on behalf of an honest
    party (a builder, a certificate round trip, ...) raised.  That is a
    verdict about the code under test, not a harness problem."""

    def __init__(self, what, exc):
        super().__init__('%s raised %s: %s' % (what, type(exc).__name__, exc))
        self.what = what
        self.exc = exc


def real(what, fn, *args, **kw):
    """call real /repo code on behalf of an honest party"""
    try:
        return fn(*args, **kw)
    except (_Timeout, HarnessError):
        raise
    except DeprecationWarning:
        # only where the configuration pass turns warnings into errors: an entry point
        # that announces its deprecation does so loudly, to its caller -- that is not a
        # defect.  The call is repeated with that category silenced.  (A warning raised
        # inside a *validation* is different: run_auth_scripts swallows it into False;
        # validations are never made through this wrapper.)
        import warnings
        with warnings.catch_warnings():
            warnings.simplefilter('ignore', DeprecationWarning)
            try:
                return fn(*args, **kw)
            except (_Timeout, HarnessError):
                raise
            except LIB_ERRORS as e:
                raise RealCodeRaised(what, e)
    except LIB_ERRORS as e:
        raise RealCodeRaised(what, e)


def _alarm(signum, frame):
    raise _Timeout()


def execute(mod, plan, want_trace=False):
    """Execute one plan in a process of its own (ISOLATE modules; all of them
    are): nothing process-global survives from one execution to the next."""
    if getattr(mod, 'ISOLATE', False):
        return execute_seq(mod, [plan], want_trace)[0]
    return _execute_here(mod, plan, want_trace)


def _execute_here(mod, plan, want_trace):
    old = signal.signal(signal.SIGALRM, _alarm)
    signal.alarm(RUN_TIMEOUT_S)
    try:
        run = Run()
        try:
            mod.execute(plan, run)
        except RealCodeRaised as e:
            run.violation('honest_call_does_not_raise',
                          '%s/real_code_raised/%s/%s' % (mod.PID, e.what, type(e.exc).__name__),
                          step=getattr(run, 'cur_step', None), detail={'error': str(e)[:300]})
        res = run.result()
        if want_trace:
            res['trace'] = run.trace
        return res
    except _Timeout:
        raise HarnessError('run exceeded %d s wall (plan run_seed=%s)' %
                           (RUN_TIMEOUT_S, plan.get('run_seed')))
    finally:
        signal.alarm(0)
        signal.signal(signal.SIGALRM, old)


def execute_seq(mod, plans, want_trace=False, stop_sigs=None):
    """Execute a sequence of plans one after the other in ONE freshly forked
    process and return their results in order.  This is the unit of isolation
    and of replay: a batch of runs shares a process (fork is expensive on this
    box), so a violation that needs state leaked by an earlier run of its batch
    is replayed as that sequence.  With `stop_sigs` (a set of known-finding
    signatures) the child stops after the first run that has a violation
    outside that set."""
    r, w = os.pipe()
    pid = os.fork()
    if pid == 0:
        code = 0
        try:
            os.close(r)
            out = []
            try:
                for plan in plans:
                    res = _execute_here(mod, plan, want_trace)
                    out.append(res)
                    if stop_sigs is not None and any(
                            v['signature'] not in stop_sigs for v in res['violations']):
                        break
                msg = ('ok', out)
            except BaseException as e:      # noqa
                msg = ('err', 'after %d runs: %s' % (len(out), ''.join(traceback.format_exception(e))))
            with os.fdopen(w, 'wb') as f:
                pickle.dump(msg, f)
        except BaseException:               # noqa
            code = 1
        finally:
            os._exit(code)
    os.close(w)
    with os.fdopen(r, 'rb') as f:
        data = f.read()
    _, status = os.waitpid(pid, 0)
    if not data:
        raise HarnessError('isolated run died (status %r)' % status)
    kind, res = pickle.loads(data)
    if kind == 'err':
        raise HarnessError('isolated run raised:\n' + res)
    return res


# ---------------------------------------------------------------- findings

def load_known(path=None):
    path = path or os.path.join(VERIF, 'KNOWN_FINDINGS.txt')
    known, fixed = [], []
    if not os.path.exists(path):
        return known, fixed
    for line in open(path):
        line = line.strip()
        if not line or line.startswith('#'):
            continue
        head, _, what = line.partition('::')
        toks = head.split()
        d = {'what': what.strip(), 'raw': line}
        for t in toks[1:]:
            if '=' in t:
                k, _, v = t.partition('=')
                d[k] = v
            else:
                d.setdefault('commit', t)
        if toks[0] == 'known:':
            known.append(d)
        elif toks[0] == 'fixed:':
            fixed.append(d)
    return known, fixed


# ---------------------------------------------------------------- batches

def _merge_counts(a, b):
    for k, v in b.items():
        a[k] = a.get(k, 0) + v


def worker(args):
    """Runs plan indices start, start+stride, ... < total.  Stops at the first
    violation whose signature is not a known finding."""
    pid, seed, tier, start, stride, total, known_sigs, deadline = args
    from . import seams
    mod = load(pid)
    agg = {
        'runs': 0, 'evals': 0, 'dont_care': 0, 'cells': set(), 'probes': {},
        'faults': {}, 'schedules': set(), 'aux_auth_raised': 0, 'sim_us': 0,
        'fault_free_runs': 0, 'known_hits': {}, 'violation': None,
        'digests': {}, 'samples': [], 'harness_error': None,
        'evals_fault_free': 0, 'trace_events': 0,
    }
    idx = start
    batch = max(1, int(getattr(mod, 'BATCH', 1)))
    try:
        while idx < total and agg['violation'] is None:
            if _t.monotonic() > deadline:
                agg['budget_hit'] = True
                break
            idxs = []
            while len(idxs) < batch and idx < total:
                idxs.append(idx)
                idx += stride
            plans = [mod.gen_plan(run_seed(seed, pid, i), i, tier) for i in idxs]
            results = execute_seq(mod, plans, stop_sigs=set(known_sigs))
            for k, res in enumerate(results):
                i = idxs[k]
                agg['runs'] += 1
                agg['evals'] += res['evals']
                agg['dont_care'] += res['dont_care']
                agg['cells'].update(res['cells'])
                _merge_counts(agg['probes'], res['probes'])
                _merge_counts(agg['faults'], res['faults'])
                agg['schedules'].add(res['schedule'])
                agg['aux_auth_raised'] += res['aux_auth_raised']
                agg['sim_us'] += res['sim_us']
                agg['trace_events'] += res['trace_len']
                if res['fault_free']:
                    agg['fault_free_runs'] += 1
                    agg['evals_fault_free'] += res['evals']
                if k == 0 and (len(agg['digests']) < 40 or i % 257 == 0):
                    # only the first run of a batch starts in a fresh process:
                    # that is what the determinism self-check re-executes
                    agg['digests'][i] = res['digest']
                if res['sample'] is not None and len(agg['samples']) < 2:
                    agg['samples'].append(res['sample'])
                bad = None
                for v in res['violations']:
                    if v['signature'] in known_sigs:
                        agg['known_hits'][v['signature']] = \
                            agg['known_hits'].get(v['signature'], 0) + 1
                    elif bad is None:
                        bad = v
                if bad is not None:
                    agg['violation'] = {'idx': i, 'plan': plans[k], 'violation': bad,
                                        'prefix': plans[:k]}
                    break
    except HarnessError as e:
        agg['harness_error'] = 'idx=%d: %s' % (idx, e)
    except BaseException as e:      # noqa
        agg['harness_error'] = 'idx=%d: %s' % (
            idx, ''.join(traceback.format_exception(e)))
    agg['cells'] = sorted(agg['cells'])
    agg['schedules'] = sorted(agg['schedules'])
    return agg


# ---------------------------------------------------------------- minimise

def reproduces(mod, plan, sig, prefix=()):
    """does the plan, executed in a fresh process after the plans of `prefix`,
    show the signature?"""
    try:
        res = execute_seq(mod, list(prefix) + [plan])[-1]
    except HarnessError:
        return False
    return any(v['signature'] == sig for v in res['violations'])


def minimise_prefix(mod, prefix, plan, sig, max_exec=60):
    """the violation needs state left behind by earlier runs of its batch:
    find a small subsequence of them that still provokes it"""
    budget = [max_exec]
    best = list(prefix)

    def fails(pre):
        if budget[0] <= 0:
            return False
        budget[0] -= 1
        return reproduces(mod, plan, sig, pre)
    for i in range(len(best)):          # a single earlier run is the common case
        if fails([best[i]]):
            return [best[i]]
    i = 0
    while i < len(best) and budget[0] > 0:
        cand = best[:i] + best[i + 1:]
        if fails(cand):
            best = cand
        else:
            i += 1
    return best


def minimise(mod, plan, sig, max_exec=300, log=None, prefix=()):
    """Bounded structural reducer.  A candidate is kept only if the same
    signature recurs (after the plans of `prefix` in the same process, if the
    violation is history dependent)."""
    budget = [max_exec]

    def fails(p):
        if budget[0] <= 0:
            return False
        budget[0] -= 1
        return reproduces(mod, p, sig, prefix)

    best = copy.deepcopy(plan)
    # 1. drop the tail after the violating step, if steps are independent
    for key in getattr(mod, 'STEP_KEYS', ['steps']):
        steps = best.get(key)
        if not isinstance(steps, list) or not steps:
            continue
        # single-step attempt first (most violations need one step)
        done = False
        if len(steps) > 1:
            for i in range(len(steps)):
                if budget[0] <= max_exec // 2:
                    break
                cand = copy.deepcopy(best)
                cand[key] = [steps[i]]
                if fails(cand):
                    best = cand
                    done = True
                    break
        if done:
            continue
        # ddmin
        n = 2
        steps = best[key]
        while len(steps) >= 2 and budget[0] > 0:
            chunk = max(1, len(steps) // n)
            reduced = False
            for i in range(0, len(steps), chunk):
                cand = copy.deepcopy(best)
                cand[key] = steps[:i] + steps[i + chunk:]
                if cand[key] and fails(cand):
                    best = cand
                    steps = best[key]
                    n = max(n - 1, 2)
                    reduced = True
                    break
            if not reduced:
                if chunk == 1:
                    break
                n = min(len(steps), n * 2)
    # 2. property-specific simplifications, greedy to a fixed point
    shrink = getattr(mod, 'shrink', None)
    if shrink is not None:
        progress = True
        while progress and budget[0] > 0:
            progress = False
            for cand in shrink(best):
                if budget[0] <= 0:
                    break
                if canon(cand) == canon(best):
                    continue
                if fails(cand):
                    best = cand
                    progress = True
                    break
    best['minimised'] = {'executions': max_exec - budget[0]}
    return best


def write_replay(pid, plan, violation, res_digest, tag=None, prefix=()):
    os.makedirs(os.path.join(VERIF, 'replays'), exist_ok=True)
    name = '%s-%s.json' % (pid, tag or plan.get('run_seed', 'x'))
    path = os.path.join(VERIF, 'replays', name)
    doc = {'property': pid, 'signature': violation['signature'],
           'invariant': violation['invariant'],
           'expected': violation.get('detail', {}),
           'trace_digest': res_digest, 'plan': plan}
    if sys.flags.optimize:
        # to be replayed under the same interpreter configuration (replay() sees to it)
        doc['python_optimize'] = sys.flags.optimize
    if 'error' in sys.warnoptions:
        doc['python_warnings'] = 'error'
    if prefix:
        # history dependent: these plans are executed first, in the same process
        doc['earlier_plans_in_same_process'] = list(prefix)
    with open(path, 'w') as f:
        json.dump(doc, f, indent=1, sort_keys=True, default=_jd)
        f.write('\n')
    return path


def replay(pid, path):
    """Re-execute a replay file.  Returns (reproduced, result, doc)."""
    doc = json.load(open(path))
    if int(doc.get('python_optimize', 0)) != sys.flags.optimize or \
            (doc.get('python_warnings') == 'error') != ('error' in sys.warnoptions):
        # recorded under another interpreter configuration: replay it there
        import subprocess
        cmd = [sys.executable] + (['-O'] if doc.get('python_optimize') else []) + \
            (['-W', 'error'] if doc.get('python_warnings') == 'error' else []) + \
            [os.path.join(VERIF, 'check.py'), doc.get('property', pid), '--replay', path]
        env = dict(os.environ)
        env.pop('PYTHONOPTIMIZE', None)
        out = subprocess.run(cmd, env=env, capture_output=True, text=True, timeout=900)
        if out.returncode not in (0, 1):
            raise HarnessError('replay subprocess failed: ' + (out.stdout + out.stderr)[-1500:])
        return out.returncode == 1, {'violations': [], 'note': out.stdout[-300:]}, doc
    mod = load(doc.get('property', pid))
    pre = doc.get('earlier_plans_in_same_process', [])
    res = execute_seq(mod, list(pre) + [doc['plan']], want_trace=True)[-1]
    hit = [v for v in res['violations'] if v['signature'] == doc['signature']]
    return bool(hit), res, doc
