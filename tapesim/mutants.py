"""Hand-written one-line mutants of /repo for the sensitivity self-test.
Each must survive the repository's 267 tests and be reported by the quick
check of its property.  (Independent, agent-written breaking changes live under
/verif/seeded.)"""

FN = 'tapescript/functions.py'
TL = 'tapescript/tools.py'
PA = 'tapescript/parsing.py'
AM = 'tapescript/AMHL.py'

MUTANTS = [
    # ---------------------------------------------------------------- C16
    dict(pid='C16', name='cts_lt_to_le', file=FN,
         old="    if cache['timestamp'] < constraint:\n        stack.put(b'\\x00')\n    elif difference",
         new="    if cache['timestamp'] <= constraint:\n        stack.put(b'\\x00')\n    elif difference"),
    dict(pid='C16', name='cts_slack_ge_to_gt', file=FN,
         old="elif difference >= tape.flags['ts_threshold'] and",
         new="elif difference > tape.flags['ts_threshold'] and"),
    dict(pid='C16', name='cts_thr_gt0_to_ge0', file=FN,
         old="        tape.flags['ts_threshold'] > 0:",
         new="        tape.flags['ts_threshold'] >= 0:"),
    dict(pid='C16', name='cts_signed_constraint', file=FN,
         old="        'OP_CHECK_TIMESTAMP malformed constraint encountered')\n    constraint = int.from_bytes(constraint, 'big')",
         new="        'OP_CHECK_TIMESTAMP malformed constraint encountered')\n    constraint = bytes_to_int(constraint)"),
    dict(pid='C16', name='ce_signed_constraint', file=FN,
         old="        'OP_CHECK_EPOCH malformed constraint encountered')\n    constraint = int.from_bytes(constraint, 'big')",
         new="        'OP_CHECK_EPOCH malformed constraint encountered')\n    constraint = bytes_to_int(constraint)"),
    dict(pid='C16', name='ce_ge_to_gt', file=FN,
         old="if constraint - int(time()) >= tape.flags['epoch_threshold']:",
         new="if constraint - int(time()) > tape.flags['epoch_threshold']:"),
    dict(pid='C16', name='ce_reads_cache_timestamp', file=FN,
         old="if constraint - int(time()) >= tape.flags['epoch_threshold']:",
         new="if constraint - cache.get('timestamp', int(time())) >= tape.flags['epoch_threshold']:"),
    dict(pid='C16', name='cts_difference_reversed', file=FN,
         old="difference = cache['timestamp'] - int(time())",
         new="difference = int(time()) - cache['timestamp']"),
    dict(pid='C16', name='ctsv_drops_verify', file=FN,
         old="    OP_CHECK_TIMESTAMP(tape, stack, cache)\n    OP_VERIFY(tape, stack, cache)",
         new="    OP_CHECK_TIMESTAMP(tape, stack, cache)\n    stack.get()"),
    dict(pid='C16', name='cev_drops_verify', file=FN,
         old="    OP_CHECK_EPOCH(tape, stack, cache)\n    OP_VERIFY(tape, stack, cache)",
         new="    OP_CHECK_EPOCH(tape, stack, cache)\n    stack.get()"),
    dict(pid='C16', name='after_lock_uses_epoch', file=TL,
         old="    return Script.from_src(f'push d{ts} check_timestamp')",
         new="    return Script.from_src(f'push d{ts} check_epoch')"),
    dict(pid='C16', name='before_lock_verify_drops_not', file=TL,
         old="        return Script.from_src(f'push d{ts} check_timestamp not verify')",
         new="        return Script.from_src(f'push d{ts} check_timestamp verify')"),
    dict(pid='C16', name='between_lock_swapped', file=TL,
         old="    return make_timestamp_after_lock(begin_ts, True) + \\\n        make_timestamp_before_lock(end_ts, op_verify)",
         new="    return make_timestamp_after_lock(end_ts, True) + \\\n        make_timestamp_before_lock(begin_ts, op_verify)"),
    dict(pid='C16', name='between_lock_end_inclusive', file=TL,
         old="    return make_timestamp_after_lock(begin_ts, True) + \\\n        make_timestamp_before_lock(end_ts, op_verify)",
         new="    return make_timestamp_after_lock(begin_ts, True) + \\\n        make_timestamp_before_lock(end_ts + 1, op_verify)"),
    dict(pid='C16', name='cts_int_time_rounds', file=FN,
         old="difference = cache['timestamp'] - int(time())",
         new="difference = cache['timestamp'] - round(time() + 0.5)"),
]
