"""Small executable reference models shared by several properties.  Written
from the property statements; libsodium (through nacl.bindings) and hashlib
are the trusted base."""
import hashlib

import nacl.bindings as nb

ACCEPT, REJECT, EITHER = 'ACCEPT', 'REJECT', 'EITHER'
L = 2 ** 252 + 27742317777372353535851937790883648493


def ed_verify(pk: bytes, msg: bytes, sig64: bytes) -> bool:
    if len(pk) != 32 or len(sig64) != 64:
        return False
    try:
        nb.crypto_sign_open(sig64 + msg, pk)
        return True
    except Exception:
        return False


def sig_message(sigfields: dict, flag: int) -> bytes:
    """The message a signature with sigflag byte `flag` commits to: the
    present sigfield1..8 whose flag bit is clear, in index order."""
    out = b''
    for i in range(1, 9):
        k = 'sigfield%d' % i
        if k in sigfields and not (flag >> (i - 1)) & 1:
            out += sigfields[k]
    return out


def validsig(item: bytes, pk: bytes, sigfields: dict, allowed: int) -> bool:
    """C02 rule: 64- or 65-byte item, flag subset of allowed, Ed25519 valid."""
    if not isinstance(item, bytes) or len(item) not in (64, 65) or len(pk) != 32:
        return False
    flag = item[64] if len(item) == 65 else 0
    if flag & ~allowed & 0xff:
        return False
    return ed_verify(pk, sig_message(sigfields, flag), item[:64])


def slack3(t: int, reads, thr: int):
    """Three-valued 'not ahead of the verifier clock by the slack or more':
    True if it holds for every recorded read under both the truncated and the
    real-valued reading of `now`, False if for none, None if they disagree."""
    if thr <= 0:
        return True
    if not reads:
        return None
    vals = []
    for r in reads:
        vals.append(t - int(r) < thr)
        if isinstance(r, float) and r != int(r) and abs(r) < 2 ** 52:
            vals.append(t - r < thr)
    if all(vals):
        return True
    if not any(vals):
        return False
    return None


def slack_tripped_int(t: int, reads, thr: int) -> str:
    """Explaining clause for signatures, on the truncated reading of every
    recorded read, *in read order*.  What matters for the `check_timestamp not`
    idiom is whether some read that did NOT trip the slack is followed by one
    that did (the clock moved backwards during the call: the recorded findings
    F2 / F3) or only the other way round (it moved forwards: a different
    situation, which the unchanged code rejects)."""
    if thr <= 0:
        return 'slack_off'
    tr = [t - int(r) >= thr for r in reads]
    if tr and all(tr):
        return 'slack_tripped_on_all_reads'
    if not any(tr):
        return 'slack_not_tripped'
    first_ok = tr.index(False)
    if any(tr[first_ok:]):
        return 'slack_newly_tripped_on_a_later_read'
    return 'slack_tripped_only_on_earlier_reads'


TX_CHANGES = ['flip', 'flip', 'shift_boundary', 'drop_empty', 'add_field', 'add_empty', 'truncate']


def gen_tx_change(rng):
    """The transaction the validator sees is not the one that was signed."""
    return {'kind': rng.choice(TX_CHANGES), 'a': rng.below(8), 'b': rng.below(4096)}


def change_tx(sf: dict, spec: dict) -> dict:
    """-> the validator's sigfields.  Some changes leave the signed message as it is
    (a byte moved across the boundary of two adjacent present fields, an empty field
    dropped or added, a change inside a field the signature's flag masks): the
    reference model decides from the message alone, as the signature rule says."""
    out = dict(sf)
    keys = sorted(out)
    if not keys:
        return out
    k = keys[spec['a'] % len(keys)]
    kind = spec['kind']
    if kind == 'flip':
        v = out[k]
        if v:
            bit = spec['b'] % (len(v) * 8)
            out[k] = v[:bit // 8] + bytes([v[bit // 8] ^ (1 << (bit % 8))]) + v[bit // 8 + 1:]
        else:
            out[k] = b'\x01'
    elif kind == 'shift_boundary':
        i = keys.index(k)
        if i + 1 < len(keys) and out[k]:
            n = keys[i + 1]
            out[n] = out[k][-1:] + out[n]
            out[k] = out[k][:-1]
    elif kind == 'drop_empty':
        for kk in keys:
            if not out[kk] and len(out) > 1:
                del out[kk]
                break
    elif kind in ('add_field', 'add_empty'):
        free = [i for i in range(1, 9) if 'sigfield%d' % i not in out]
        if free:
            out['sigfield%d' % free[spec['a'] % len(free)]] = b'' if kind == 'add_empty' else b'extra'
    elif kind == 'truncate':
        out[k] = out[k][:-1]
    return out


def pick_bit(rng, nbits: int) -> int:
    """Which bit of a key, point, scalar or signature to flip: uniformly, but one time
    in three one of the structurally special ones -- the top bits of the (little-endian)
    value, i.e. the sign bit of a compressed point and bits 252..255 of a scalar, for
    both halves of a 64-byte signature, and bit 0."""
    if rng.chance(1, 3):
        return rng.choice([b for b in (nbits - 1, nbits - 2, nbits - 3, nbits - 4, 0,
                                       255, 254, 253, 252, 256) if 0 <= b < nbits])
    return rng.below(nbits)


def malleate(sig: bytes) -> bytes:
    """(R, S) -> (R, S + L): the same group equation in a non-canonical encoding
    (S < L < 2^253, so the sum always fits).  libsodium refuses it; so must the code."""
    body, tail = sig[:64], sig[64:]
    s = int.from_bytes(body[32:], 'little') + L
    return body[:32] + s.to_bytes(32, 'little') + tail


def and3(*vals):
    """Kleene conjunction over True / False / None."""
    if any(v is False for v in vals):
        return False
    if any(v is None for v in vals):
        return None
    return True


def verdict3(v):
    return ACCEPT if v is True else REJECT if v is False else EITHER


def sha256(b: bytes) -> bytes:
    return hashlib.sha256(b).digest()


def shake256(b: bytes, n: int) -> bytes:
    return hashlib.shake_256(b).digest(n)


def scalar_to_int(s: bytes) -> int:
    return int.from_bytes(s, 'little')


def int_to_scalar(n: int) -> bytes:
    return (n % L).to_bytes(32, 'little')


def base_mult(s: bytes) -> bytes:
    return nb.crypto_scalarmult_ed25519_base_noclamp(s)


def point_add(a: bytes, b: bytes) -> bytes:
    return nb.crypto_core_ed25519_add(a, b)


def pubkey_of_seed(seed: bytes) -> bytes:
    pk, _ = nb.crypto_sign_seed_keypair(seed)
    return pk


def bool_of(item: bytes) -> bool:
    return int.from_bytes(item, 'big') > 0


def as_key_arg(kind: str, raw: bytes, how: str):
    """The builders accept keys as bytes or as PyNaCl objects: hand them over the
    way this run's knob says ('bytes' / 'object')."""
    if how != 'object':
        return raw
    from nacl.signing import SigningKey, VerifyKey
    return SigningKey(raw) if kind == 'prv' else VerifyKey(raw)


# A lock travels: the embedder may keep the Script object the builder returned, only
# its bytes, its source text (compiled again on arrival), or the bytes decompiled and
# compiled again.  Every form must behave alike.  Likewise the execution limits may be
# passed explicitly; generous ones (the defaults, or more) must not move a verdict.
LOCK_FORMS = ['object', 'object', 'object', 'bytes', 'resrc', 'redec']
LIMITS = [{}, {}, {},
          {'stack_max_items': 1024, 'stack_max_item_size': 1024, 'callstack_limit': 128},
          {'stack_max_items': 4096, 'stack_max_item_size': 8192, 'callstack_limit': 1000},
          {'callstack_limit': 129}, {'stack_max_items': 1025}, {'stack_max_item_size': 1025}]


# A lock is often not the outermost script: it is committed to by a script-hash lock,
# a taproot output (script path), a leaf of a Merklized script tree, or it is a
# graftroot surrogate.  With the matching reveal appended to the unlocking script,
# every such wrapper must be transparent: same verdict as the bare lock.
WRAPS = ['none'] * 6 + ['scripthash', 'taproot', 'merkle_first', 'merkle_last', 'merkle_balanced',
                        'graftroot']
_WKEY = bytes(range(100, 132))


def wrap_lock(lock, how):
    """-> (outer lock, bytes to append to the unlocking script).  Builders only; call it
    outside the validator's clock call (some of them execute comptime blocks)."""
    from .seams import T
    if how == 'none':
        return lock, b''
    if how == 'scripthash':
        return T.make_scripthash_lock(lock), T.make_scripthash_witness(lock).bytes
    if how == 'taproot':
        pk = pubkey_of_seed(_WKEY)
        return T.make_taproot_lock(pk, lock), T.make_taproot_witness_scriptspend(pk, lock).bytes
    if how == 'graftroot':
        return (T.make_graftroot_lock(pubkey_of_seed(_WKEY)),
                T.make_graftroot_witness_surrogate(_WKEY, lock).bytes)
    others = ['false', 'push x01 pop0 false']
    if how == 'merkle_first':
        outer, unl = T.make_merklized_script_prioritized([lock] + others)
        return outer, unl[0].bytes
    if how == 'merkle_last':
        outer, unl = T.make_merklized_script_prioritized(others + [lock])
        return outer, unl[2].bytes
    if how == 'merkle_balanced':
        outer, unl = T.make_merklized_script_balanced([others[0], lock, others[1]])
        return outer, unl[1].bytes
    raise ValueError(how)


# Callers differ in how they spell the same arguments: the sigflags hex in either case,
# the sigfields in any insertion order; and they may call a builder or a validator
# twice with the very same argument objects (a retry): the second result counts.
ARG_STYLES = ['plain', 'plain', 'plain', 'upper_flags', 'reversed_sigfields', 'both']


def styled_flags(flags: str, style: str) -> str:
    return flags.upper() if style in ('upper_flags', 'both') else flags


def styled_sigfields(sf: dict, style: str) -> dict:
    keys = sorted(sf, reverse=style in ('reversed_sigfields', 'both'))
    return {k: sf[k] for k in keys}


def maybe_twice(twice, fn, *args, **kw):
    if twice:
        fn(*args, **kw)
    return fn(*args, **kw)


# The validator process may have unrelated entries in the plugin registries (another
# part of the application installed them): plugins that look and change nothing must
# not move a verdict.  (reset_world empties both scopes at the start of the next run.)
def _ambient_sigext(tape, stack, cache):
    return None


def _ambient_template(tape, stack, cache):
    return False


def caching_flags_off(run_seed: int):
    """The numeric entries 0..9 of the library's process-wide `flags` only say which
    intermediate values an instruction also stores in the cache (b'x', b'R', b'sa', ...):
    an embedder may switch any of them off; no verdict may move.  The subset is a
    function of the run seed (no PRNG draw); reset_world restores the defaults."""
    from .seams import F
    off = [k for k in range(10) if (run_seed >> (3 * k + 5)) & 1]
    for k in off:
        F.flags[k] = False
    return off


def ambient_plugins():
    from .seams import F
    F.add_signature_extension(_ambient_sigext)
    F.add_plugin('check_template', _ambient_template)


def in_form(script, how):
    from .seams import T
    if how == 'bytes':
        return script.bytes
    if how == 'resrc':
        return T.Script.from_src(script.src)
    if how == 'redec':
        return T.Script.from_src(T.Script.from_bytes(script.bytes).src)
    return script


def code_of(script):
    return script if isinstance(script, bytes) else script.bytes


PREFIXES = ['', '', '', 'push d1 pop0', 'true not pop0', '# a comment # push x00 pop0']


# An unlocking script is code, not only pushes.  These prefixes leave the stack as
# it is; whatever else they do (an unused definition, an unrelated cache variable, a
# swallowed error that leaves b'E' in the cache, a flag removed from the witness tape;
# OP_SET_FLAG is not among them: on this VM it raises for every standard flag, whose
# names are not byte strings)
# must not change the verdict of the lock that runs afterwards.
DECORATIONS = ['', '', '', '', 'def 7 { true }', 'def 0 { pop0 true }', 'def 0 { true }',
               '@= zz [ x01 ]', '@= d [ x%s ] @= r [ x%s ]' % ('11' * 32, '22' * 32),
               'try { false verify } except { true pop0 }', 'unset_flag d1',
               'push x01 push x02 swap2 pop0 pop0']

# A trailing OP_RETURN in the unlocking script is different: on this VM the flag it
# sets survives into the lock (the known C01 leak), where it can only cut the lock
# short.  It is therefore judged for soundness only: whatever the item-level model
# rejects must still be rejected.
SUFFIXES = ['', '', '', '', '', '', 'return', 'true return', 'false return']
