"""Private PRNG (splitmix64).  Not `random`: helper algorithms there have
changed between CPython versions, and replay must be a pure function of the
seed and the code."""
import hashlib

M64 = (1 << 64) - 1


def mix(*parts) -> int:
    """Stable 64-bit hash of a tuple of ints / strs / bytes (not hash())."""
    h = hashlib.sha256()
    for p in parts:
        if isinstance(p, int):
            b = b'i' + str(p).encode()
        elif isinstance(p, str):
            b = b's' + p.encode()
        elif isinstance(p, (bytes, bytearray)):
            b = b'b' + bytes(p)
        else:
            raise TypeError(type(p))
        h.update(len(b).to_bytes(4, 'big') + b)
    return int.from_bytes(h.digest()[:8], 'big')


class Rng:
    __slots__ = ('s',)

    def __init__(self, seed: int):
        self.s = seed & M64

    def u64(self) -> int:
        self.s = (self.s + 0x9E3779B97F4A7C15) & M64
        z = self.s
        z = ((z ^ (z >> 30)) * 0xBF58476D1CE4E5B9) & M64
        z = ((z ^ (z >> 27)) * 0x94D049BB133111EB) & M64
        return z ^ (z >> 31)

    def below(self, n: int) -> int:
        assert n > 0
        if n <= (1 << 32):
            return (self.u64() >> 11) % n
        k = 0
        bits = n.bit_length() + 64
        while k.bit_length() < bits:
            k = (k << 64) | self.u64()
        return k % n

    def rng(self, lo: int, hi: int) -> int:
        """uniform integer in [lo, hi]"""
        return lo + self.below(hi - lo + 1)

    def chance(self, num: int, den: int) -> bool:
        return self.below(den) < num

    def choice(self, seq):
        return seq[self.below(len(seq))]

    def weighted(self, pairs):
        """pairs: list of (weight, value)"""
        tot = sum(w for w, _ in pairs)
        k = self.below(tot)
        for w, v in pairs:
            if k < w:
                return v
            k -= w
        raise AssertionError

    def bytes(self, n: int) -> bytes:
        out = b''
        while len(out) < n:
            out += self.u64().to_bytes(8, 'big')
        return out[:n]

    def shuffle(self, lst: list) -> None:
        for i in range(len(lst) - 1, 0, -1):
            j = self.below(i + 1)
            lst[i], lst[j] = lst[j], lst[i]

    def sample(self, seq, k: int) -> list:
        lst = list(seq)
        self.shuffle(lst)
        return lst[:k]

    def fork(self, *label) -> 'Rng':
        return Rng(mix(self.u64(), *label))
