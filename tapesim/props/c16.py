"""C16 -- time constraints accept exactly their documented window.
DESIGN.md section 3.1."""
import copy

from ..prng import Rng
from ..seams import CLOCK, F, T, ScriptExecutionError, reset_world
from ..seams import LIB_ERRORS
from ..oracle import ambient_plugins
from ..oracle import ACCEPT, REJECT, EITHER, slack3, slack_tripped_int, verdict3

PID = 'C16'
BATCH = 16
ISOLATE = True      # one forked process per run: nothing a run does to process-global
                    # state can reach another run, so every run replays on its own
RUNS = {'quick': 50000, 'thorough': 1000000}
COMPONENTS = {
    'real': ['compile_script', 'Script.from_src', 'run_script', 'run_auth_scripts',
             'OP_CHECK_TIMESTAMP(_VERIFY)', 'OP_CHECK_EPOCH(_VERIFY)',
             'make_timestamp_after_lock', 'make_timestamp_before_lock',
             'make_timestamp_between_lock'],
    'stub': ['validator clocks (SimClock)', 'submitter choosing t',
             'embedder threshold configuration'],
}
RULE = ('each run = 20-40 validations of time locks on 1-3 simulated validators '
        'with skewed / fractional / stepping / frozen clocks; first validation '
        'of run i is forced into boundary cell i mod %d; a case is non-trivial '
        'when the oracle gave a definite verdict; distinct = distinct tuples '
        '(lock kind, t-c class, slack class, threshold class, clock-fault '
        'class, observed verdict)')
REQUIRED_PROBES = ['t==c', 't==c-1', 't-now==thr', 't-now==thr-1', 'thr<=0',
                   'constraint_top_bit', 'encoding_len_9', 'step_between_reads',
                   'mixed_slack_reads', 'fractional_now', 'empty_window', 'default_timestamp', 'session_cache_reused', 'non_int_timestamp', 'clock_read_failed'] + \
    ['nested_' + n for n in ('if', 'else', 'call', 'eval', 'try', 'except', 'loop', 'scripthash')]

KINDS = ['cts', 'ctsv', 'ce', 'cev', 'after', 'afterv', 'before', 'beforev',
         'between', 'betweenv']
DTS = [-2, -1, 0, 1, 2, 'far-', 'far+']
DSS = [-2, -1, 0, 1, 2, 'far']
THRC = ['neg', 'zero', 'one', 'two', 'sixty', 'large']
FAULTC = ['none', 'skew', 'step_fwd', 'step_back', 'step_between', 'freeze']
N_CELLS = len(KINDS) * len(DTS) * len(DSS) * len(THRC) * len(FAULTC)
EPOCHS = [1000, 70000, 1_700_000_000, 2 ** 31 - 3, 2 ** 31 + 5, 2 ** 32 - 3,
          2 ** 32 + 5, 2 ** 40, None]


def decode_cell(i):
    i %= N_CELLS
    k = KINDS[i % len(KINDS)]; i //= len(KINDS)
    dt = DTS[i % len(DTS)]; i //= len(DTS)
    ds = DSS[i % len(DSS)]; i //= len(DSS)
    th = THRC[i % len(THRC)]; i //= len(THRC)
    fc = FAULTC[i % len(FAULTC)]
    return k, dt, ds, th, fc


BASE = {'cts': 'cts', 'ctsv': 'cts', 'ce': 'ce', 'cev': 'ce', 'after': 'after',
        'afterv': 'after', 'before': 'before', 'beforev': 'before',
        'between': 'between', 'betweenv': 'between'}


def _thr(rng, cls):
    return {'neg': rng.choice([-1, -5, -60]), 'zero': 0, 'one': 1, 'two': 2,
            'sixty': 60, 'large': rng.choice([10 ** 6, 3600, 2 ** 31])}[cls]


def _encode(c: int, length: int) -> str:
    """hex of the constraint as an unsigned big-endian item of `length` bytes
    (caller guarantees it fits)"""
    return c.to_bytes(length, 'big').hex()


def gen_step(rng: Rng, cell, vname, now_s, at_us, big):
    kind, dt, ds, thc, fc = cell
    thr = _thr(rng, thc)
    far = rng.rng(100, 10 ** 6)
    # t relative to the validator's (predicted) clock and the slack threshold
    edge = now_s + (thr if thr > 0 else 0)
    if fc == 'skew':
        edge += rng.choice([-3600, -61, -1, 1, 59, 60, 61, 3600])
    t = edge + ds if ds != 'far' else now_s - far
    t = max(t, 0)
    if dt == 'far-':
        c = t + far
    elif dt == 'far+':
        c = max(t - far, 0)
    else:
        c = max(t - dt, 0)
    step = {'at_us': at_us, 'validator': vname, 'kind': kind, 't': t,
            'thr': thr, 'thr_e': rng.choice([0, 1, 2, 60, 3600]),
            'via': rng.choice(['global', 'additional']), 'faults': [],
            'gthr': rng.choice([60, 0, 1, 10 ** 6]), 'gthr_e': rng.choice([60, 0, 1, 10 ** 6]),
            'nest': rng.choice(NESTS), 'dec': rng.chance(1, 4),
            'spelling': rng.choice(['lower', 'lower', 'upper']),
            # a session: the cache returned by this validator's previous run_script is
            # handed to this one (with the new timestamp) -- nothing but the explicit
            # timestamp may carry over from an earlier instant
            'reuse_cache': rng.chance(1, 6)}
    if rng.chance(1, 25) and kind not in ('ce', 'cev'):
        # the embedder copies a crafted transaction field into the cache: a value that
        # is not an int must not unlock anything the documented formula would not
        step['weird_t'] = rng.choice(sorted(WEIRD))
    if kind in ('ce', 'cev'):
        # constraint relative to clock and epoch threshold instead
        d = ds if ds != 'far' else rng.choice([-far, far])
        c = max(now_s + step['thr_e'] + d, 0)
        step['t'] = rng.choice([t, 0, now_s])
    if kind in ('cts', 'ctsv', 'ce', 'cev'):
        minlen = max(1, (c.bit_length() + 7) // 8)
        ln = rng.choice([minlen, minlen, min(9, minlen + 1), 9, rng.rng(minlen, 9)]) \
            if minlen <= 9 else minlen
        step['c'] = c
        step['enc'] = _encode(c, ln)
        if rng.chance(1, 12) and not big:
            # constraint far above any timestamp, top bit of a 8/9-byte item set
            ln = rng.choice([8, 9])
            cc = (1 << (8 * ln - 1)) + rng.below(1 << 32)
            step['c'] = cc
            step['enc'] = _encode(cc, ln)
    elif kind in ('after', 'afterv', 'before', 'beforev'):
        step['c'] = c
    else:
        # between: the boundary under test is begin or end
        width = rng.choice([0, 1, 2, 10, 3600, -1, -10])
        if rng.chance(1, 2):
            step['c'] = c                       # begin
            step['c2'] = max(c + width, 0)      # end
        else:
            step['c2'] = c                      # end
            step['c'] = max(c - width, 0)
    if rng.chance(1, 8) and kind not in ('ce', 'cev') and 'weird_t' not in step:
        # the embedder does not supply a timestamp: the execution timestamp is
        # run_script's default, i.e. the validator clock at that instant; the
        # constraint is placed relative to it
        step['default_t'] = True
        for key in ('c', 'c2'):
            if key in step:
                step[key] = max(step[key] - step['t'] + now_s, 0)
        if 'enc' in step:
            c2 = step['c']
            minlen = max(1, (c2.bit_length() + 7) // 8)
            step['enc'] = _encode(c2, min(9, max(minlen, len(step['enc']) // 2)))
        step['t'] = None
    # clock faults inside the validation (read 0 = run_script's default
    # timestamp; later reads = the CHECK_* instructions)
    thr_mag = abs(thr) if thr else 1
    sizes = [1, 2, thr_mag, thr_mag + 1, 20, 1000, rng.rng(1, 100000)]
    if fc == 'step_fwd':
        step['faults'].append({'at_read': rng.below(3), 'kind': 'step',
                               'delta_us': rng.choice(sizes) * 1_000_000})
    elif fc == 'step_back':
        step['faults'].append({'at_read': rng.below(3), 'kind': 'step',
                               'delta_us': -rng.choice(sizes) * 1_000_000})
    elif fc == 'step_between':
        step['faults'].append({'at_read': rng.rng(1, 2), 'kind': 'step',
                               'delta_us': rng.choice([-1, -1, 1]) *
                               rng.choice(sizes) * 1_000_000})
    elif fc == 'freeze':
        step['faults'].append({'at_read': rng.below(2), 'kind': 'freeze'})
        if rng.chance(1, 2):
            step['faults'].append({'at_read': 2, 'kind': 'unfreeze'})
    if fc != 'none' and 'weird_t' not in step and rng.chance(1, 12):
        # the clock system call itself fails, once, at one of the reads of this call
        step['faults'].append({'at_read': rng.below(3), 'kind': 'fail'})
    return step


def gen_plan(run_seed, idx, tier):
    rng = Rng(run_seed)
    fault_free = (idx % 4 == 3)
    ep = EPOCHS[rng.below(len(EPOCHS))]
    if ep is None:
        ep = rng.rng(2 ** 41, 2 ** 62)
    big = ep >= 2 ** 51
    regime = 'int' if big else rng.choice(['integer', 'fractional'])
    if fault_free and regime == 'fractional':
        regime = 'integer'
    latency = 0 if fault_free else rng.choice([0, 0, 1, 400_000, 1_000_000])
    nval = rng.rng(1, 3)
    validators = {}
    for i in range(nval):
        validators['V%d' % i] = {
            'epoch0_s': ep,
            'offset_us': 0 if fault_free else rng.choice(
                [0, 0, 1_000_000, -1_000_000, 59_500_000, -3600_000_000,
                 rng.rng(-10 ** 9, 10 ** 9)]),
            'drift_ppm': 0 if fault_free else rng.choice([0, 0, 50, -50, 20000]),
            'frac_us': 0 if regime != 'fractional' else rng.rng(1, 999_999),
        }
    plan = {'property': PID, 'run_seed': run_seed, 'idx': idx,
            'knobs': {'regime': regime, 'latency_us': latency,
                      'fault_free': fault_free},
            'validators': validators, 'steps': []}
    nsteps = rng.rng(20, 40)
    at = 0
    names = sorted(validators)
    for s in range(nsteps):
        at += rng.choice([10, 11, 60, 3600, 86400]) * 1_000_000
        cell = list(decode_cell(idx if s == 0 else rng.below(N_CELLS)))
        if fault_free:
            cell[4] = 'none'
        vname = names[rng.below(len(names))]
        v = validators[vname]
        now_us = v['epoch0_s'] * 1_000_000 + v['offset_us'] + v['frac_us'] + at + \
            (at * v['drift_ppm']) // 1_000_000
        step = gen_step(rng, tuple(cell), vname, now_us // 1_000_000, at, big)
        step['cell'] = '/'.join(str(x) for x in cell)
        plan['steps'].append(step)
    return plan


# ------------------------------------------------------------------ execute

def build_lock(step):
    k = step['kind']
    # the constraint operand in hex (exactly these bytes) or, one time in four, as a
    # decimal literal (the compiler then chooses the encoding)
    arg = 'x%s' % step['enc'] if 'enc' in step else ''
    if step.get('dec') and 'enc' in step:
        arg = 'd%d' % step['c']
    opn = {'cts': 'check_timestamp', 'ctsv': 'check_timestamp_verify', 'ce': 'check_epoch',
           'cev': 'check_epoch_verify'}.get(k)
    if opn:
        src = 'push %s %s' % (arg, opn)
        if step.get('spelling') == 'upper':
            src = 'OP_PUSH %s OP_%s' % (arg, opn.upper())
        return T.Script.from_src(src)
    v = k.endswith('v')
    if k.startswith('after'):
        return T.make_timestamp_after_lock(step['c'], v)
    if k.startswith('before'):
        return T.make_timestamp_before_lock(step['c'], v)
    return T.make_timestamp_between_lock(step['c'], step['c2'], v)


NESTS = ['top', 'top', 'top', 'if', 'else', 'call', 'eval', 'try', 'except', 'loop', 'scripthash']


def wrap(lock, nest, verify_form):
    """the same time check, executed inside a nesting context.  The value the
    check leaves (or the error it raises) must come out unchanged."""
    h = lock.bytes.hex()
    c = T.compile_script
    if nest == 'top':
        return lock.bytes
    if nest == 'if':
        return c('true if { push x%s eval }' % h) if False else \
            c('true') + bytes([F.opcodes_inverse['OP_IF'][0]]) + len(lock.bytes).to_bytes(2, 'big') + lock.bytes
    if nest == 'call':
        return bytes([F.opcodes_inverse['OP_DEF'][0], 0]) + len(lock.bytes).to_bytes(2, 'big') + \
            lock.bytes + bytes([F.opcodes_inverse['OP_CALL'][0], 0])
    if nest == 'eval':
        return c('push x%s eval' % h)
    if nest == 'try':
        exc = c('false verify')
        return bytes([F.opcodes_inverse['OP_TRY_EXCEPT'][0]]) + len(lock.bytes).to_bytes(2, 'big') + \
            lock.bytes + len(exc).to_bytes(2, 'big') + exc
    if nest == 'except':
        # the check is the fallback path: it runs after the TRY clause has failed
        tr = c('false verify')
        return bytes([F.opcodes_inverse['OP_TRY_EXCEPT'][0]]) + len(tr).to_bytes(2, 'big') + tr + \
            len(lock.bytes).to_bytes(2, 'big') + lock.bytes
    if nest == 'else':
        a = c('true pop0')
        return c('false') + bytes([F.opcodes_inverse['OP_IF_ELSE'][0]]) + len(a).to_bytes(2, 'big') + a + \
            len(lock.bytes).to_bytes(2, 'big') + lock.bytes
    if nest == 'loop':
        body = lock.bytes + c('false')
        code = c('true') + bytes([F.opcodes_inverse['OP_LOOP'][0]]) + len(body).to_bytes(2, 'big') + body
        # the loop leaves [true, (result,) false]: drop the two markers
        return code + (c('pop0 pop0') if verify_form else c('pop0 swap2 pop0'))
    if nest == 'scripthash':
        return T.make_scripthash_witness(lock).bytes + T.make_scripthash_lock(lock).bytes
    raise ValueError(nest)


SESSION = {}        # validator -> cache returned by its latest raw run (per run of the sim)
# execution timestamps that are not ints (tag -> value made from the step's integer t)
WEIRD = {'nan': lambda t: float('nan'), 'inf': lambda t: float('inf'),
         'ninf': lambda t: float('-inf'), 'half': lambda t: float(t) + 0.5,
         'float': lambda t: float(t), 'bool': lambda t: True}


def weird_model(step, reads):
    """The documented formulas evaluated on the non-int value itself (comparisons with
    NaN are false).  Where a formula is false the value must be rejected; where it is
    true either answer is fine (the unchanged code refuses every non-int)."""
    tv = WEIRD[step['weird_t']](step['t'])
    k = BASE[step['kind']]
    thr = step['thr']
    if thr <= 0:
        slack = True
    else:
        vals = [tv - int(r) < thr for r in reads] + [tv - r < thr for r in reads]
        slack = bool(vals) and all(vals)
    if k in ('cts', 'after'):
        ok = tv >= step['c'] and slack
    elif k == 'before':
        ok = tv < step['c']
    else:
        ok = step['c'] <= tv < step['c2'] and slack
    return EITHER if ok else REJECT


def observe(step, lock, run):
    """Run the real code; returns 'ACCEPT' / 'REJECT' / 'BAD:<why>'."""
    k = step['kind']
    t = step['t']
    cache = {} if t is None else {'timestamp': t}
    if step.get('weird_t'):
        cache = {'timestamp': WEIRD[step['weird_t']](t)}
    prev = SESSION.get(step['validator'])
    if step.get('reuse_cache') and prev is not None and t is not None and not step.get('weird_t'):
        run.probe('session_cache_reused')
        cache = {**prev, 'timestamp': t}
        cache.pop('returned', None)
    if k in ('cts', 'ctsv', 'ce', 'cev'):
        flags = {}
        if step['via'] == 'additional':
            flags = {'ts_threshold': step['thr'], 'epoch_threshold': step['thr_e']}
            # ... while the process-wide defaults say something else
            F.flags['ts_threshold'] = step.get('gthr', 60)
            F.flags['epoch_threshold'] = step.get('gthr_e', 60)
        else:
            F.flags['ts_threshold'] = step['thr']
            F.flags['epoch_threshold'] = step['thr_e']
        try:
            code = lock
            if t is None:       # really rely on the defaults: no cache argument at all
                _, stack, out_cache = F.run_script(code, additional_flags=flags)
            else:
                _, stack, out_cache = F.run_script(code, cache, additional_flags=flags)
            SESSION[step['validator']] = out_cache
        except ScriptExecutionError:
            return REJECT if k in ('ctsv', 'cev') else 'BAD:raised_ScriptExecutionError'
        except LIB_ERRORS as e:
            return 'BAD:raised_' + type(e).__name__
        items = stack.list()
        if k in ('ctsv', 'cev'):
            return ACCEPT if items == [] else 'BAD:verify_left_%d_items' % len(items)
        if items == [b'\xff']:
            return ACCEPT
        if items == [b'\x00']:
            return REJECT
        return 'BAD:stack_' + ','.join(i.hex() for i in items)[:40]
    nested = T.Script('# nested #', lock)
    scripts = [nested]
    if k.endswith('v'):
        scripts = [T.Script.from_src('true'), nested]
    if step['via'] == 'additional':
        # the verifier supplies its thresholds per call
        F.flags['ts_threshold'] = step.get('gthr', 60)
        F.flags['epoch_threshold'] = step.get('gthr_e', 60)
        try:
            af = {'ts_threshold': step['thr'], 'epoch_threshold': step['thr_e']}
            code = b''.join(s.bytes for s in scripts)
            if t is None:
                _, stack, _ = F.run_script(code, additional_flags=af)
            else:
                _, stack, _ = F.run_script(code, cache, additional_flags=af)
        except LIB_ERRORS:
            return REJECT
        return ACCEPT if stack.list() == [b'\xff'] else REJECT
    F.flags['ts_threshold'] = step['thr']
    F.flags['epoch_threshold'] = step['thr_e']
    try:
        r = F.run_auth_scripts(scripts) if t is None else F.run_auth_scripts(scripts, cache)
    except BaseException as e:      # noqa
        run.aux_auth_raised += 1
        return 'BAD:auth_raised_' + type(e).__name__
    if r is True:
        return ACCEPT
    if r is False:
        return REJECT
    run.aux_auth_raised += 1
    return 'BAD:auth_returned_' + type(r).__name__


def epoch3(c, reads, thr_e):
    vals = []
    for r in reads:
        vals.append(c - int(r) < thr_e)
        if isinstance(r, float) and r != int(r):
            vals.append(c - r < thr_e)
    if not vals:
        return None
    if all(vals):
        return True
    if not any(vals):
        return False
    return None


def model(step, reads):
    k = step['kind']
    t = step['t']
    if k in ('ce', 'cev'):
        return verdict3(epoch3(step['c'], reads, step['thr_e']))
    s3 = slack3(t, reads, step['thr'])
    if k in ('cts', 'ctsv', 'after', 'afterv'):
        if t < step['c']:
            return REJECT
        return verdict3(s3)
    if k in ('before', 'beforev'):
        return ACCEPT if t < step['c'] else REJECT
    # between
    if t < step['c'] or t >= step['c2']:
        return REJECT
    return ACCEPT if s3 is True else EITHER


def signature(step, reads, observed, mdl):
    k = BASE[step['kind']]
    t = step['t']
    if observed.startswith('BAD'):
        return 'C16/%s/%s' % (step['kind'], observed.split('_')[0] + '_' +
                              '_'.join(observed.split('_')[1:3]))
    clause = slack_tripped_int(t, reads, step['thr'])
    if k == 'ce':
        return 'C16/check_epoch/%s' % ('accepted_beyond_threshold' if observed == ACCEPT
                                       else 'rejected_within_threshold')
    if k in ('cts', 'after'):
        name = 'check_timestamp' if k == 'cts' else 'after_lock'
        if observed == ACCEPT:
            where = 'accepted_before_constraint' if t < step['c'] else 'accepted_beyond_slack'
        else:
            where = 'rejected_inside_window'
        return 'C16/%s/%s/%s' % (name, where, clause)
    if k == 'before':
        where = 'accepted_at_or_after_ts' if observed == ACCEPT else 'rejected_before_ts'
        if clause in ('slack_tripped_on_all_reads', 'slack_newly_tripped_on_a_later_read'):
            clause = 'slack_tripped'     # i.e. tripped at the read the check made
        return 'C16/before_lock/%s/%s' % (where, clause)
    if observed == ACCEPT:
        where = 'accepted_before_begin' if t < step['c'] else 'accepted_at_or_after_end'
    else:
        where = 'rejected_inside_window'
    return 'C16/between_lock/%s/%s' % (where, clause)


def _cls(d):
    if d < -2:
        return '<'
    if d > 2:
        return '>'
    return str(d)


def execute(plan, run):
    reset_world(plan['run_seed'])
    if plan['idx'] % 5 == 2:
        # every fifth run: unrelated do-nothing plugins are registered in this process
        ambient_plugins()
        run.probe('ambient_plugins')
    SESSION.clear()
    kn = plan['knobs']
    CLOCK.latency_us = kn['latency_us']
    for name in sorted(plan['validators']):
        v = plan['validators'][name]
        CLOCK.add_node(name, epoch0_s=v['epoch0_s'],
                       offset_us=v['offset_us'] + v.get('frac_us', 0),
                       drift_ppm=v['drift_ppm'],
                       ret='int' if kn['regime'] == 'int' else 'float',
                       frac=kn['regime'] == 'fractional')
    run.fault_free = bool(kn.get('fault_free'))
    if kn['regime'] == 'fractional':
        run.probe('fractional_now')
    for i, step in enumerate(plan['steps']):
        CLOCK.tau = max(CLOCK.tau, step['at_us'])
        # everything is built before the validator's clock is consulted (the
        # scripthash builder executes a comptime block, which reads the clock)
        lock = wrap(build_lock(step), step.get('nest', 'top'), step['kind'].endswith('v'))
        CLOCK.begin_call(step['validator'], step['faults'])
        try:
            obs = observe(step, lock, run)
        finally:
            reads = CLOCK.end_call()
        would = CLOCK.last_call.get('would')
        if would:
            # a clock read failed inside this validation: it may fail as a whole, but it
            # must not accept what the window -- evaluated with the value the failed
            # read would have returned -- excludes
            run.probe('clock_read_failed')
            if obs.startswith('BAD:raised_'):
                obs = REJECT
            st2 = dict(step, t=int(CLOCK.last_call['all'][0])) if step['t'] is None else step
            mdl = model(st2, CLOCK.last_call['all'])
            if mdl == ACCEPT:
                mdl = EITHER
            run.sched.append([step['kind'], step.get('nest', 'top'), step['validator'],
                              len(reads), 'clock_read_failed'])
            run.ev('val', i, step['kind'], step['t'], 'clock_read_failed', reads, obs, mdl)
            run.judge('window', obs, mdl,
                      lambda o, m, s=step: 'C16/%s/%s_after_a_failed_clock_read' % (
                          BASE[s['kind']], 'accepted' if o == ACCEPT else o[:40]),
                      step=i, detail={'reads': reads, 'would_have_read': would, 't': step['t'],
                                      'kind': step['kind'], 'c': step.get('c'),
                                      'c2': step.get('c2'), 'thr': step['thr']})
            continue
        if step.get('weird_t'):
            run.probe('non_int_timestamp')
            if obs.startswith('BAD:raised_'):
                obs = REJECT        # refusing the value outright is a rejection
            mdl = weird_model(step, reads)
            run.sched.append([step['kind'], step.get('nest', 'top'), step['validator'],
                              len(reads), 'weird_' + step['weird_t']])
            run.ev('val', i, step['kind'], step['t'], step['weird_t'], reads, obs, mdl)
            run.judge('window', obs, mdl,
                      lambda o, m, s=step: 'C16/%s/non_int_timestamp_%s/%s' % (
                          BASE[s['kind']], s['weird_t'],
                          'accepted_against_the_formula' if o == ACCEPT else o[:40]),
                      step=i, detail={'reads': reads, 't': step['t'], 'weird_t': step['weird_t'],
                                      'kind': step['kind'], 'c': step.get('c'),
                                      'c2': step.get('c2'), 'thr': step['thr']})
            continue
        if step['t'] is None:
            # default execution timestamp: whatever the clock showed first in this call
            # (any read of this call may be the one run_script took it from: the model is
            # evaluated for each; where they disagree it does not care)
            run.probe('default_timestamp')
            cands = sorted({int(r) for r in reads}) or [0]
            verdicts = {model(dict(step, t=c), reads) for c in cands}
            # (the explaining clause of a signature is computed for the largest candidate:
            # the one for which the slack clause trips first)
            step = dict(step, t=cands[-1])
            mdl = verdicts.pop() if len(verdicts) == 1 else EITHER
        else:
            mdl = model(step, reads)
        if step.get('nest', 'top') != 'top':
            run.probe('nested_' + step['nest'])
        run.sched.append([step['kind'], step.get('nest', 'top'), step['validator'], len(reads),
                          [f['kind'] for f in step['faults']]])
        run.ev('val', i, step['kind'], step['t'], reads, obs, mdl)
        run.judge('window', obs, mdl,
                  lambda o, m, s=step, r=reads: signature(s, r, o, m),
                  step=i, detail={'reads': reads, 't': step['t'],
                                  'kind': step['kind'], 'c': step.get('c'),
                                  'c2': step.get('c2'), 'thr': step['thr'],
                                  'thr_e': step['thr_e']})
        # reach probes and behaviour cells
        t, c, thr = step['t'], step.get('c', 0), step['thr']
        k = step['kind']
        now0 = int(reads[-1]) if reads else 0
        if k not in ('ce', 'cev'):
            if t == c or (k.startswith('between') and t == step['c2']):
                run.probe('t==c')
            if t == c - 1 or (k.startswith('between') and t == step['c2'] - 1):
                run.probe('t==c-1')
            if thr > 0 and t - now0 == thr:
                run.probe('t-now==thr')
            if thr > 0 and t - now0 == thr - 1:
                run.probe('t-now==thr-1')
            if thr <= 0:
                run.probe('thr<=0')
            if thr > 0 and slack3(t, reads, thr) is None:
                run.probe('mixed_slack_reads')
        if 'enc' in step:
            if int(step['enc'][:2], 16) & 0x80:
                run.probe('constraint_top_bit')
            if len(step['enc']) == 18:
                run.probe('encoding_len_9')
        if k.startswith('between') and step['c'] >= step['c2']:
            run.probe('empty_window')
        fcls = 'none'
        for f in step['faults']:
            fcls = f['kind'] + ('@%d' % min(f['at_read'], 2))
            if f['kind'] == 'step':
                fcls += '-' if f['delta_us'] < 0 else '+'
        if mdl != EITHER:
            dcls = _cls(t - c) if k not in ('ce', 'cev') else _cls(c - now0 - step['thr_e'])
            scls = 'off' if thr <= 0 else _cls(t - now0 - thr)
            tcls = 'neg' if thr < 0 else str(thr) if thr in (0, 1, 2, 60) else 'large'
            run.cell(k, step.get('nest', 'top'), dcls, scls, tcls, fcls, obs)
        if run.sample is None and i == 0:
            run.sample = {'step': step, 'reads': reads, 'observed': obs, 'model': mdl}
    _merge_fired(run)
    if plan['knobs']['latency_us']:
        run.fault('read_latency', CLOCK.n_reads)
    run.fault_free = bool(kn.get('fault_free'))
    run.sim_us = CLOCK.tau


def _merge_fired(run):
    for k, v in CLOCK.fired.items():
        run.fault(k, v)
        if k == 'step_between_reads':
            run.probe('step_between_reads', v)


# ------------------------------------------------------------------ shrink

def shrink(plan):
    """Candidate simplifications (each is tried; kept if the same signature
    recurs)."""
    p = plan
    # rebase the epoch to a readable one (pure translation of all instants)
    eps = sorted({v['epoch0_s'] for v in p['validators'].values()})
    if len(eps) == 1 and eps[0] not in (100000,) and \
            not any('enc' in s for s in p['steps']):
        d = eps[0] - 100000
        if all((s['t'] is None or s['t'] - d >= 0) and s.get('c', d) - d >= 0 and
               s.get('c2', d) - d >= 0 for s in p['steps']):
            c = copy.deepcopy(p)
            for v in c['validators'].values():
                v['epoch0_s'] -= d
            for s in c['steps']:
                if s['t'] is not None:
                    s['t'] -= d
                for key in ('c', 'c2'):
                    if key in s:
                        s[key] -= d
            if c['knobs']['regime'] == 'int':
                c['knobs']['regime'] = 'integer'
            yield c
    for name in sorted(p['validators']):
        used = any(s['validator'] == name for s in p['steps'])
        if not used and len(p['validators']) > 1:
            c = copy.deepcopy(p)
            del c['validators'][name]
            yield c
    for name in sorted(p['validators']):
        v = p['validators'][name]
        for key in ('drift_ppm', 'frac_us', 'offset_us'):
            if v.get(key):
                c = copy.deepcopy(p)
                c['validators'][name][key] = 0
                yield c
    if p['knobs']['latency_us']:
        c = copy.deepcopy(p)
        c['knobs']['latency_us'] = 0
        yield c
    if p['knobs']['regime'] == 'fractional':
        c = copy.deepcopy(p)
        c['knobs']['regime'] = 'integer'
        for v in c['validators'].values():
            v['frac_us'] = 0
        yield c
    for i, s in enumerate(p['steps']):
        if s['at_us']:
            c = copy.deepcopy(p)
            c['steps'][i]['at_us'] = 0
            yield c
        for j in range(len(s['faults'])):
            c = copy.deepcopy(p)
            del c['steps'][i]['faults'][j]
            yield c
        for j, f in enumerate(s['faults']):
            if f['kind'] == 'step':
                d = f['delta_us']
                for nd in (d // 2, d - (1_000_000 if d > 0 else -1_000_000)):
                    if nd != 0 and nd != d and abs(nd) >= 1_000_000:
                        c = copy.deepcopy(p)
                        c['steps'][i]['faults'][j]['delta_us'] = \
                            (nd // 1_000_000) * 1_000_000
                        yield c
        if s.get('via') == 'additional':
            c = copy.deepcopy(p)
            c['steps'][i]['via'] = 'global'
            yield c
        if s.get('nest', 'top') != 'top':
            c = copy.deepcopy(p)
            c['steps'][i]['nest'] = 'top'
            yield c
