"""C15 -- hash- and point-time-locked contracts: claim and refund paths are
exact.  DESIGN.md section 3.3."""
import copy

from ..prng import Rng
from ..seams import CLOCK, F, T, reset_world, HarnessError
from ..seams import LIB_ERRORS
from ..core import real
from ..oracle import ambient_plugins
from ..oracle import caching_flags_off
from ..oracle import (ACCEPT, REJECT, EITHER, slack3, slack_tripped_int, and3,
                      verdict3, validsig, sha256, shake256, pubkey_of_seed,
                      bool_of, base_mult, point_add, as_key_arg, PREFIXES, DECORATIONS, SUFFIXES,
                      LOCK_FORMS, LIMITS, in_form, code_of, WRAPS, wrap_lock, malleate, pick_bit,
                      gen_tx_change, change_tx,
                      ARG_STYLES, styled_flags, styled_sigfields, maybe_twice)

PID = 'C15'
ISOLATE = True      # one forked process per run: nothing a run does to process-global
                    # state can reach another run, so every run replays on its own
RUNS = {'quick': 9000, 'thorough': 160000}
STEP_KEYS = ['steps']
BATCH = 8           # runs per forked process (see core.execute_seq)
COMPONENTS = {
    'real': ['make_htlc_sha256_lock', 'make_htlc_shake256_lock', 'make_htlc_witness',
             'make_htlc2_sha256_lock', 'make_htlc2_shake256_lock', 'make_htlc2_witness',
             'make_ptlc_lock', 'make_ptlc_witness', 'make_ptlc_refund_witness',
             'compile_script', 'run_script', 'run_auth_scripts', 'OP_CHECK_TIMESTAMP_VERIFY',
             'OP_CHECK_SIG', 'OP_SIGN', 'sign_with_scalar', 'aggregate_points'],
    'stub': ['sender / receiver / outsider wallets', 'creator and validator clocks',
             'ledger (outputs, published witnesses)', 'witness corruption in transit'],
}
RULE = ('each run = 2-6 HTLC/PTLC outputs created on the sender clock and 15-40 '
        'spend attempts by receiver, sender and an outsider (who learns preimages '
        'from published claims) on 1-2 validators with skewed / fractional / '
        'stepping / frozen clocks and single-bit witness corruption; first attempt '
        'of run i is forced into boundary cell i mod %d; non-trivial = definite '
        'oracle verdict; distinct = distinct tuples (lock kind, witness kind, '
        'signer, preimage class, t-deadline class, slack class, corruption, verdict)')
REQUIRED_PROBES = ['refund_at_deadline', 'refund_deadline_minus_1', 'claim_after_deadline',
                   'refund_future_eq_thr', 'outsider_with_revealed_preimage', 'tweak_used',
                   'digest_param', 'hash_size_1', 'hash_size_16', 'hash_size_20',
                   'hash_size_32', 'hash_size_64', 'step_between_reads', 'corrupt_sig',
                   'corrupt_preimage', 'corrupt_pubkey', 'corrupt_selector', 'threshold_per_call',
                   'default_timestamp', 'crafted_witness', 'witness_with_code', 'witness_ending_in_return',
                   'lock_form_bytes', 'lock_form_resrc', 'lock_form_redec', 'explicit_limits',
                   'clock_read_failed', 'malleated_signature',
                   'transaction_changed_after_signing',
                   'signed_the_digest_of_a_long_transaction'] + \
    ['lock_wrapped_' + x for x in sorted(set(WRAPS) - {'none'})]

LKINDS = ['htlc_sha', 'htlc_shake', 'htlc2_sha', 'htlc2_shake', 'ptlc', 'ptlc_tweak']
WKINDS = ['htlc', 'htlc2', 'ptlc', 'ptlc_refund']
ACTORS = ['R', 'S', 'O']
PRE = ['right', 'wrong', 'one']
REQUIRED_PROBES += ['pair_%s_%s' % (l, w) for l in LKINDS for w in WKINDS]
DTS = [-1, 0, 1, 'far-', 'far+']
DSS = [-1, 0, 'ok']
N_CELLS = len(LKINDS) * len(WKINDS) * len(ACTORS) * len(PRE) * len(DTS) * len(DSS)
NATIVE = {'htlc_sha': 'htlc', 'htlc_shake': 'htlc', 'htlc2_sha': 'htlc2',
          'htlc2_shake': 'htlc2', 'ptlc': 'ptlc', 'ptlc_tweak': 'ptlc'}


def decode_cell(i):
    i %= N_CELLS
    lk = LKINDS[i % 6]; i //= 6
    wk = WKINDS[i % 4]; i //= 4
    ac = ACTORS[i % 3]; i //= 3
    pr = PRE[i % 3]; i //= 3
    dt = DTS[i % 5]; i //= 5
    ds = DSS[i % 3]
    return lk, wk, ac, pr, dt, ds


def _local_s(c, at_us):
    return (c['epoch0_s'] * 1_000_000 + c['offset_us'] + c.get('frac_us', 0) + at_us +
            (at_us * c['drift_ppm']) // 1_000_000) // 1_000_000


def _at_for(c, want_s):
    """global instant at which clock c shows want_s (approximately)"""
    base = c['epoch0_s'] * 1_000_000 + c['offset_us'] + c.get('frac_us', 0)
    d = want_s * 1_000_000 - base
    if d <= 0:
        return 0
    return d * 1_000_000 // (1_000_000 + c['drift_ppm']) + 1_000_000


def gen_output(rng, kind, at_us):
    o = {'kind': kind, 'at_us': at_us,
         'timeout': rng.choice([0, 1, 2, 10, 3600, 86400, 86400, 10 ** 9, -1, -60]),
         'preimage': rng.bytes(rng.choice([1, 2, 16, 20, 32, 33, 64])).hex(),
         'use_digest': rng.chance(1, 3),
         'allowed': rng.choice(['00', '00', '01', '03', 'ff', '06', '80', 'a0']),
         'hash_size': rng.choice([1, 16, 20, 32, 64]),
         'keys': rng.choice(['bytes', 'bytes', 'object']),
         'call': rng.choice(['keyword', 'keyword', 'positional']),
         'style': rng.choice(ARG_STYLES),
         'sigfields': {}}
    for k in rng.sample(range(1, 9), rng.rng(1, 3)):
        o['sigfields']['sigfield%d' % k] = rng.bytes(rng.choice([0, 1, 8, 32, 100, 255, 256, 300])).hex()
    if kind == 'ptlc_tweak':
        t = bytearray(rng.bytes(32))
        t[31] &= 0x7f
        if rng.chance(1, 2):
            t[0] &= 0xf8
            t[31] |= 0x40
        o['tweak'] = bytes(t).hex()
    return o


def gen_step(rng, cell, oid, out, clocks, vname, thr, fault_free):
    lk, wk, ac, pr, dt, ds = cell
    created = _local_s(clocks['S'], out['at_us'])
    deadline = created + out['timeout']
    far = rng.rng(100, 10 ** 6)
    t = deadline + dt if isinstance(dt, int) else (deadline - far if dt == 'far-' else deadline + far)
    t = max(t, 0)
    # validator clock relative to t and the slack
    if ds == 'ok' or thr <= 0:
        want_now = t + rng.choice([0, 0, 1, 5, 3600]) if rng.chance(3, 4) else max(t - max(thr - 2, 0), 0)
    else:
        want_now = t - thr - ds          # ds=0: t-now == thr ; ds=-1: t-now == thr-1 (+1 below)
        if ds == -1:
            want_now = t - thr + 1
    at = max(_at_for(clocks[vname], max(want_now, 0)), out['at_us'] + 1)
    flags = sorted({'00', out['allowed'], '01', '02', '80'})
    step = {'at_us': at, 'validator': vname, 'out': oid, 'actor': ac, 'wkind': wk,
            'pre': pr, 't': t, 'flag': rng.choice(['00', '00', out['allowed'], rng.choice(flags)]),
            'faults': [], 'corrupt': None, 'thr': thr,
            # how the verifier supplies its slack threshold: the global flags with
            # run_auth_scripts, or per call (run_script additional_flags)
            'via': rng.choice(['global', 'global', 'additional']),
            'gthr': rng.choice([60, 0, 1, 10 ** 6]),
            # one attempt in eight does not stamp the transaction at all: the
            # execution timestamp is then the validator's own clock
            'default_t': rng.chance(1, 8),
            # keys handed to the builders as bytes or as PyNaCl objects; a neutral
            # script prefix before the signing operation
            'keys': rng.choice(['bytes', 'bytes', 'object']), 'prefix': rng.choice(PREFIXES),
            'decor': rng.choice(DECORATIONS), 'suffix': rng.choice(SUFFIXES),
            'form': rng.choice(LOCK_FORMS), 'limits': rng.below(len(LIMITS)),
            'wrap': rng.choice(WRAPS), 'style': rng.choice(ARG_STYLES),
            'tx_change': gen_tx_change(rng) if rng.chance(1, 10) else None,
            'prehash': rng.choice(['sha512', 'sha256']) if rng.chance(1, 25) else None,
            'twice': rng.choice(['', '', '', 'build', 'validate', 'build+validate'])}
    if not fault_free:
        r = rng.below(10)
        if r == 0:
            step['faults'].append({'at_read': rng.below(2), 'kind': 'step',
                                   'delta_us': rng.choice([-1, 1]) * rng.choice(
                                       [1, 2, max(thr, 1), 1000]) * 1_000_000})
        elif r == 1:
            step['faults'].append({'at_read': 1, 'kind': 'step',
                                   'delta_us': -rng.choice([1, 2, 20, max(thr, 1)]) * 1_000_000})
        elif r == 2:
            step['faults'].append({'at_read': 0, 'kind': 'freeze'})
        elif r == 3 and rng.chance(1, 2):
            # the clock system call itself fails, once, during the validation
            step['faults'].append({'at_read': rng.below(2), 'kind': 'fail'})
        if rng.chance(1, 6):
            step['corrupt'] = {'item': rng.below(3), 'bit': pick_bit(rng, 512)}
            if rng.chance(1, 5):
                step['corrupt'] = {'item': 0, 'bit': 0, 'malleate': True}
        elif rng.chance(1, 7):
            # a witness the attacker composes himself from observed material
            step['crafted'] = [rng.below(64) for _ in range(rng.rng(1, 4))]
    return step


def gen_plan(run_seed, idx, tier):
    rng = Rng(run_seed)
    fault_free = (idx % 4 == 3)
    ep = rng.choice([1000, 70000, 1_700_000_000, 2 ** 31 - 100000, 2 ** 31 - 50, 2 ** 31 + 5,
                     2 ** 32 - 200000, 2 ** 32 - 50, 2 ** 32 + 5, 2 ** 37])
    regime = 'integer' if fault_free else rng.choice(['integer', 'fractional'])

    def clk():
        return {'epoch0_s': ep,
                'offset_us': 0 if fault_free else rng.choice(
                    [0, 0, 1_000_000, -1_000_000, 59_000_000, -61_000_000,
                     rng.rng(-10 ** 8, 10 ** 8)]),
                'drift_ppm': 0 if fault_free else rng.choice([0, 0, 100, -100]),
                'frac_us': rng.rng(1, 999_999) if regime == 'fractional' else 0}
    clocks = {'S': clk(), 'V0': clk()}
    if rng.chance(1, 2):
        clocks['V1'] = clk()
    if not fault_free:
        clocks['S']['frac_us'] = 0 if rng.chance(1, 2) else clocks['S']['frac_us']
    cell0 = decode_cell(idx)
    thr = rng.choice([60, 60, 1, 2, 0, -1, 3600])
    plan = {'property': PID, 'run_seed': run_seed, 'idx': idx,
            'knobs': {'regime': regime, 'fault_free': fault_free,
                      'latency_us': 0 if fault_free else rng.choice([0, 0, 1, 400_000, 1_000_000])},
            'actors': {a: rng.bytes(32).hex() for a in ACTORS},
            'clocks': clocks, 'outputs': {}, 'steps': []}
    nout = rng.rng(2, 6)
    at = 0
    kinds = [cell0[0]] + [rng.choice(LKINDS) for _ in range(nout - 1)]
    for i, k in enumerate(kinds):
        at += rng.choice([1, 10, 100]) * 1_000_000
        plan['outputs']['o%d' % i] = gen_output(rng, k, at)
    vnames = sorted(n for n in clocks if n != 'S')
    nsteps = rng.rng(15, 40)
    for s in range(nsteps):
        cell = cell0 if s == 0 else decode_cell(rng.below(N_CELLS))
        if s == 0:
            oid = 'o0'
        else:
            # bias towards the lock kind of the cell, else any output
            cands = [o for o in sorted(plan['outputs']) if plan['outputs'][o]['kind'] == cell[0]]
            oid = rng.choice(cands) if cands and rng.chance(3, 4) else rng.choice(sorted(plan['outputs']))
            if rng.chance(1, 2):
                # mostly native witness kind for that lock (cross pairings are the rest)
                cell = (cell[0], NATIVE[plan['outputs'][oid]['kind']]) + cell[2:]
        step = gen_step(rng, cell, oid, plan['outputs'][oid], clocks,
                        rng.choice(vnames), thr, fault_free)
        if rng.chance(1, 6):
            step['pre'] = 'revealed'
            step['actor'] = 'O'
        plan['steps'].append(step)
    return plan


# ------------------------------------------------------------------ execute

def build_lock(out, keys):
    k = out['kind']
    pre = bytes.fromhex(out['preimage'])
    allowed = styled_flags(out['allowed'], out.get('style', 'plain'))
    kw = {'timeout': out['timeout'], 'sigflags': allowed}
    pos = out.get('call') == 'positional'       # the same arguments, by position
    recv, refund = keys['R'][1], keys['S'][1]
    recv, refund = as_key_arg('pub', recv, out.get('keys', 'bytes')), \
        as_key_arg('pub', refund, out.get('keys', 'bytes'))
    if k == 'htlc_sha' or k == 'htlc2_sha':
        fn = T.make_htlc_sha256_lock if k == 'htlc_sha' else T.make_htlc2_sha256_lock
        if pos:
            return fn(recv, refund, None if out['use_digest'] else pre,
                      sha256(pre) if out['use_digest'] else None, out['timeout'], allowed)
        if out['use_digest']:
            return fn(recv, refund, digest=sha256(pre), **kw)
        return fn(recv, refund, preimage=pre, **kw)
    if k == 'htlc_shake' or k == 'htlc2_shake':
        fn = T.make_htlc_shake256_lock if k == 'htlc_shake' else T.make_htlc2_shake256_lock
        if pos:
            return fn(recv, refund, None if out['use_digest'] else pre,
                      shake256(pre, out['hash_size']) if out['use_digest'] else None,
                      out['hash_size'], out['timeout'], allowed)
        if out['use_digest']:
            return fn(recv, refund, digest=shake256(pre, out['hash_size']),
                      hash_size=out['hash_size'], **kw)
        return fn(recv, refund, preimage=pre, hash_size=out['hash_size'], **kw)
    if k == 'ptlc':
        if pos:
            return T.make_ptlc_lock(recv, refund, None, out['timeout'], allowed)
        return T.make_ptlc_lock(recv, refund, **kw)
    if pos:
        return T.make_ptlc_lock(recv, refund, base_mult(bytes.fromhex(out['tweak'])),
                                out['timeout'], allowed)
    return T.make_ptlc_lock(recv, refund, tweak_point=base_mult(bytes.fromhex(out['tweak'])), **kw)


LONG_TX = 1100      # bytes: more than one stack item can hold


def long_tx(step):
    """(what the validator sees, what was signed): a transaction too long to be a stack
    item, and a 64- or 32-byte "transaction" that is its digest -- the spender signed the
    latter; nothing may make the signature count for the former"""
    import hashlib
    m = hashlib.shake_256(b'long tx %d' % step['at_us']).digest(LONG_TX)
    h = hashlib.sha512(m).digest() if step['prehash'] == 'sha512' else hashlib.sha256(m).digest()
    return {'sigfield1': m}, {'sigfield1': h}


def build_witness(step, out, keys, preimage):
    """Calls the real witness builder; returns the Script."""
    seed = as_key_arg('prv', keys[step['actor']][0], step.get('keys', 'bytes'))
    style = step.get('style', 'plain')
    sf = styled_sigfields({k: bytes.fromhex(v) for k, v in out['sigfields'].items()}, style)
    if step.get('prehash'):
        sf = long_tx(step)[1]
    wk = step['wkind']
    pfx = step.get('prefix', '')
    flag = styled_flags(step['flag'], style)
    tw_b = 'build' in step.get('twice', '')     # same argument objects, second result used
    if wk == 'htlc':
        return maybe_twice(tw_b, T.make_htlc_witness, seed, preimage, sf, flag, pfx)
    if wk == 'htlc2':
        return maybe_twice(tw_b, T.make_htlc2_witness, seed, preimage, sf, flag, pfx)
    if wk == 'ptlc':
        # (whoever holds the receiver key holds the tweak scalar)
        tw = bytes.fromhex(out['tweak']) if 'tweak' in out and \
            keys[step['actor']][1] == keys['R'][1] else None
        return maybe_twice(tw_b, T.make_ptlc_witness, seed, sf, tw, flag, pfx)
    return maybe_twice(tw_b, T.make_ptlc_refund_witness, seed, sf, flag, pfx)


def sf_for(out):
    return {k: bytes.fromhex(v) for k, v in out['sigfields'].items()}


def push_bytes_script(items):
    """push-only witness for arbitrary items (OP_PUSH1 handles the empty item)"""
    code = b''
    for it in items:
        code += bytes([F.opcodes_inverse['OP_PUSH1'][0], len(it)]) + it
    return T.Script('# crafted witness #', code)


def items_of(script):
    """bottom -> top items a push-only witness leaves on the stack"""
    _, stack, _ = F.run_script(script.bytes)
    return stack.list()


def push_script(items):
    src = []
    for it in items:
        src.append('push x' + it.hex())
    return T.Script.from_src('\n'.join(src))


def model(out, created, keys, items, t, reads, thr, sf=None):
    """item-level reference model, written from the property statement (sf: the
    validator's sigfields where they differ from the output's)"""
    k = out['kind']
    if sf is None:
        sf = {x: bytes.fromhex(v) for x, v in out['sigfields'].items()}
    allowed = int(out['allowed'], 16)
    deadline = created + out['timeout']
    recv, refund = keys['R'][1], keys['S'][1]
    timeok = and3(t >= deadline, slack3(t, reads, thr) if t >= deadline else False)
    if deadline < 0:
        timeok = None       # (a deadline before the epoch cannot be written as a constraint)
    pre = bytes.fromhex(out['preimage'])
    if k.startswith('htlc'):
        need = 3 if k.startswith('htlc2') else 2
        if len(items) != need:
            return REJECT
        p = items[-1]
        if k.endswith('sha'):
            hit = sha256(p) == sha256(pre)
            ks = 20
        else:
            hit = shake256(p, out['hash_size']) == shake256(pre, out['hash_size'])
            ks = out['hash_size']
        want = recv if hit else refund
        if need == 2:
            sigok = validsig(items[0], want, sf, allowed)
        else:
            K = items[1]
            sigok = len(K) == 32 and shake256(K, ks) == shake256(want, ks) and \
                validsig(items[0], K, sf, allowed)
        return verdict3(and3(sigok, True if hit else timeok))
    # ptlc
    if len(items) != 2:
        return REJECT
    b = bool_of(items[-1])
    if b:
        key = recv if k == 'ptlc' else point_add(recv, base_mult(bytes.fromhex(out['tweak'])))
        return verdict3(validsig(items[0], key, sf, allowed))
    return verdict3(and3(validsig(items[0], refund, sf, allowed), timeok))


def execute(plan, run):
    reset_world(plan['run_seed'])
    if plan['idx'] % 7 == 3:
        # every seventh run: some of the cache-this-value flags are switched off
        if caching_flags_off(plan['run_seed']):
            run.probe('caching_flags_off')
    if plan['idx'] % 5 == 2:
        # every fifth run: unrelated do-nothing plugins are registered in this process
        ambient_plugins()
        run.probe('ambient_plugins')
    kn = plan['knobs']
    frac = kn['regime'] == 'fractional'
    for name in sorted(plan['clocks']):
        c = plan['clocks'][name]
        CLOCK.add_node(name, epoch0_s=c['epoch0_s'], offset_us=c['offset_us'] + c.get('frac_us', 0),
                       drift_ppm=c['drift_ppm'], frac=frac)
    actors = dict(plan['actors'])
    if plan['idx'] % 11 == 5:
        # one key in two roles: the sender's refund key is the receiver's key
        actors['S'] = actors['R']
        run.probe('receiver_key_is_refund_key')
    keys = {a: (bytes.fromhex(s), pubkey_of_seed(bytes.fromhex(s)))
            for a, s in actors.items()}
    if frac:
        run.probe('fractional_now')
    outputs = {oid: dict(o) for oid, o in plan['outputs'].items()}
    if plan['idx'] % 9 == 4:
        # one value in two roles: the tweak scalar of the tweaked PTLC outputs is the
        # receiver's own private scalar, so that the tweak point equals the receiver key
        code = bytes([F.opcodes_inverse['OP_PUSH1'][0], 32]) + keys['R'][0] + \
            T.compile_script('derive_scalar')
        x = real('derive_scalar', lambda: F.run_script(code)[1].get())
        if isinstance(x, bytes) and len(x) == 32 and base_mult(x) == keys['R'][1]:
            for o in outputs.values():
                if o['kind'] == 'ptlc_tweak':
                    o['tweak'] = x.hex()
                    run.probe('tweak_point_equals_receiver_key')
    events = [(o['at_us'], 0, oid, None) for oid, o in outputs.items()]
    events += [(s['at_us'], 1, i, s) for i, s in enumerate(plan['steps'])]
    events.sort(key=lambda e: (e[0], e[1], str(e[2])))
    locks = {}
    spent = {}
    revealed = {}          # oid -> preimage published by an accepted claim
    for at, typ, ref, step in events:
        CLOCK.tau = max(CLOCK.tau, at)
        if typ == 0:
            out = outputs[ref]
            CLOCK.latency_us = 0
            CLOCK.begin_call('S')
            try:
                lock = real('lock_builder_' + out['kind'], build_lock, out, keys)
            finally:
                reads = CLOCK.end_call()
            if not reads:
                raise HarnessError('lock builder did not read the clock seam')
            created = int(reads[0])
            locks[ref] = (lock, created)
            run.sched.append(['create', out['kind']])
            run.ev('create', ref, out['kind'], created, lock.bytes.hex())
            if out['use_digest']:
                run.probe('digest_param')
            if out['kind'].endswith('shake'):
                run.probe('hash_size_%d' % out['hash_size'])
            continue
        i = ref
        if step['out'] not in locks:
            continue
        out = outputs[step['out']]
        lock, created = locks[step['out']]
        deadline = created + out['timeout']
        pre = bytes.fromhex(out['preimage'])
        pm = step['pre']
        if pm == 'right':
            p = pre
        elif pm == 'wrong':
            p = bytes([pre[0] ^ 1]) + pre[1:]
        elif pm == 'one':
            p = b'\x00' if pre != b'\x00' else b'\x01'
        else:                       # outsider uses whatever the ledger revealed
            p = revealed.get(step['out'])
            if not p:
                p = b'\x00'     # (nothing revealed yet, or an empty item: not pushable)
            else:
                run.probe('outsider_with_revealed_preimage')
        CLOCK.latency_us = 0
        try:
            w = build_witness(step, out, keys, p)
        except LIB_ERRORS as e:
            run.ev('att', i, 'witness_builder_raised', type(e).__name__)
            run.violation('witness_builder', 'C15/witness_builder_raised/%s/%s' % (
                step['wkind'], type(e).__name__), step=i, detail={'step': step})
            continue
        items = real('run_script(witness)', items_of, w)
        cor = step.get('corrupt')
        corrupted = None
        if step.get('crafted') and not cor:
            pool = list(items)
            for a in ('R', 'S', 'O'):
                sw = T.make_single_sig_witness(keys[a][0], sf_for(out), step['flag'])
                pool.append(items_of(sw)[0])
                pool.append(keys[a][1])
            pool += [pre, bytes([pre[0] ^ 1]) + pre[1:], b'\xff', b'\x00', b'', b'j' * 32, b'k' * 64]
            items = [pool[q % len(pool)] for q in step['crafted']]
            w = push_bytes_script(items)
            cor = {'crafted': True}
            corrupted = 'crafted'
            run.probe('crafted_witness')
            run.fault('crafted_witness')
        elif cor:
            j = cor['item'] % len(items)
            it = bytearray(items[j])
            bit = cor['bit'] % (len(it) * 8)
            it[bit // 8] ^= 1 << (bit % 8)
            if cor.get('malleate') and len(items[0]) in (64, 65):
                it = malleate(items[0])     # (R, S + L): non-canonical, not a flipped bit
                run.probe('malleated_signature')
            items = items[:j] + [bytes(it)] + items[j + 1:]
            w = push_script(items)
            top = len(items) - 1
            nm = {0: 'sig'}.get(j)
            if nm is None:
                if step['wkind'] == 'htlc2':
                    nm = 'pubkey' if j == 1 else 'preimage'
                elif step['wkind'] == 'htlc':
                    nm = 'preimage'
                else:
                    nm = 'selector'
            corrupted = nm
            run.probe('corrupt_' + nm)
            run.fault('corrupt_' + nm)
        sf = {k: bytes.fromhex(v) for k, v in out['sigfields'].items()}
        if step.get('wrap', 'none') != 'none':
            # the lock is committed to by a wrapper; the reveal is appended to the witness
            run.probe('lock_wrapped_' + step['wrap'])
            lock, reveal = real('wrap_lock(' + step['wrap'] + ')', wrap_lock, lock, step['wrap'])
            w = T.Script('# witness + reveal #', w.bytes + reveal)
        if step.get('decor'):
            run.probe('witness_with_code')
            w = T.Script('# decorated witness #', T.compile_script(step['decor']) + w.bytes)
        if step.get('suffix'):
            run.probe('witness_ending_in_return')
            w = T.Script('# witness + return #', w.bytes + T.compile_script(step['suffix']))
            extra = [b'\xff'] if step['suffix'].startswith('true') else \
                [b'\x00'] if step['suffix'].startswith('false') else []
            items = items + extra
        if step.get('prehash'):
            # the validator's transaction is the long one whose digest was signed
            run.probe('signed_the_digest_of_a_long_transaction')
            sf = long_tx(step)[0]
        if step.get('tx_change'):
            # the validator's transaction differs from the one that was signed
            run.probe('transaction_changed_after_signing')
            sf = change_tx(sf, step['tx_change'])
        cache_in = dict(sf) if step.get('default_t') else {**sf, 'timestamp': step['t']}
        lockf = real('lock in form ' + step.get('form', 'object'), in_form, lock,
                     step.get('form', 'object'))
        lim = LIMITS[step.get('limits', 0)]
        if step.get('form', 'object') != 'object':
            run.probe('lock_form_' + step['form'])
        if lim:
            run.probe('explicit_limits')
        CLOCK.latency_us = kn['latency_us']
        scripts = [w, lockf]
        if step.get('style', 'plain') != 'plain':
            run.probe('argument_style_' + step['style'])
        if step.get('twice'):
            run.probe('called_twice_' + step['twice'])
        if 'validate' in step.get('twice', ''):
            # a first validation (say, on arrival) with the very same objects; its
            # verdict is not judged -- the second one below is
            CLOCK.begin_call(step['validator'], [])
            try:
                F.flags['ts_threshold'] = step['thr']
                F.run_auth_scripts(scripts, cache_in, **lim)
            except BaseException:       # noqa
                pass
            finally:
                CLOCK.end_call()
        CLOCK.begin_call(step['validator'], step['faults'])
        try:
            # (a witness ending in OP_RETURN must not be concatenated with the lock --
            # that would be the concatenation attack run_auth_scripts exists to prevent)
            if step.get('via') == 'additional' and not step.get('suffix'):
                run.probe('threshold_per_call')
                # ... while the process-wide default says something else
                F.flags['ts_threshold'] = step.get('gthr', 60)
                try:
                    _, stk, _ = F.run_script(w.bytes + code_of(lockf), cache_in,
                                             additional_flags={'ts_threshold': step['thr']},
                                             **lim)
                    r = stk.list() == [b'\xff']
                except LIB_ERRORS:
                    r = False
            elif plan['idx'] % 8 == 6 and not step.get('suffix'):
                # the deprecated single-script entry point, documented as maintained:
                # witness and lock as one script (its DeprecationWarning is expected)
                import warnings
                run.probe('deprecated_run_auth_script')
                F.flags['ts_threshold'] = step['thr']
                try:
                    with warnings.catch_warnings():
                        warnings.simplefilter('ignore', DeprecationWarning)
                        r = F.run_auth_script(w.bytes + code_of(lockf), cache_in, **lim)
                except BaseException as e:      # noqa
                    run.aux_auth_raised += 1
                    r = 'raised_' + type(e).__name__
            else:
                F.flags['ts_threshold'] = step['thr']
                try:
                    r = F.run_auth_scripts(scripts, cache_in, **lim)
                except BaseException as e:      # noqa
                    run.aux_auth_raised += 1
                    r = 'raised_' + type(e).__name__
        finally:
            reads = CLOCK.end_call()
        obs = ACCEPT if r is True else REJECT if r is False else 'BAD:' + str(r)
        clock_failed = bool(CLOCK.last_call.get('would'))
        if clock_failed:
            # judged with the value the failed read would have returned; the validation
            # may fail as a whole, but must not accept what that window excludes
            run.probe('clock_read_failed')
            reads = CLOCK.last_call['all']
        if step.get('default_t'):
            run.probe('default_timestamp')
            step = dict(step, t=int(reads[0]) if reads else 0)
        mdl = model(out, created, keys, items, step['t'], reads, step['thr'], sf=sf)
        if step.get('default_t'):
            # any read of this call may be the one the default timestamp was taken from
            for c in sorted({int(r) for r in reads}):
                if model(out, created, keys, items, c, reads, step['thr'], sf=sf) != mdl:
                    mdl = EITHER
        if (step.get('suffix') or clock_failed) and mdl == ACCEPT:
            mdl = EITHER        # soundness only (see oracle.SUFFIXES)
        t = step['t']
        lk = out['kind']

        def sig_fn(o, m, step=step, lk=lk, t=t, reads=reads, deadline=deadline, corrupted=corrupted):
            if o.startswith('BAD'):
                return 'C15/%s/run_auth_scripts_%s' % (lk, o[4:])
            who = {'R': 'receiver', 'S': 'sender', 'O': 'outsider'}[step['actor']]
            when = 'before_deadline' if t < deadline else 'at_or_after_deadline'
            return 'C15/%s/%s/%s_witness_by_%s/%s_preimage/%s/%s%s' % (
                lk, 'accepted' if o == ACCEPT else 'rejected', step['wkind'], who,
                step['pre'], when, slack_tripped_int(t, reads, step['thr']),
                '/corrupt_' + corrupted if corrupted else '')
        run.judge('lock_exact', obs, mdl, sig_fn, step=i,
                  detail={'reads': reads, 't': t, 'deadline': deadline, 'lock': lk,
                          'wkind': step['wkind'], 'actor': step['actor'], 'pre': step['pre'],
                          'thr': step['thr'], 'items': [x.hex() for x in items]})
        # second oracle, from the statement at the level of *who does what*
        # (not of items): for undamaged witnesses made by the builder that
        # belongs to the lock, the verdict must be exactly "intended holder,
        # on its path, under its condition" -- this is what catches a builder
        # that emits a wrong witness, which the item-level model cannot see
        native = step['wkind'] == NATIVE[lk] or (
            lk.startswith('ptlc') and step['wkind'] == 'ptlc_refund')
        tiny = lk.endswith('shake') and out['hash_size'] < 16
        if native and not cor and not tiny and not step.get('suffix') and not clock_failed and \
                not step.get('tx_change') and not step.get('prehash') and \
                not (step.get('default_t') and len({int(r) for r in reads}) > 1):
            who = step['actor']
            flag_ok = (int(step['flag'], 16) & ~int(out['allowed'], 16) & 0xff) == 0
            if lk.startswith('htlc'):
                claim = (p == pre)
            else:
                claim = step['wkind'] == 'ptlc'
            if claim:
                meta = keys[who][1] == keys['R'][1] and flag_ok    # (by key, not by name)
            else:
                meta = and3(keys[who][1] == keys['S'][1], flag_ok, t >= deadline,
                            slack3(t, reads, step['thr']) if t >= deadline else False)
            run.judge('builders_end_to_end', obs, verdict3(meta),
                      lambda o, m, who=who, claim=claim: 'C15/%s/builder_flow/%s_%s_by_%s/%s/%s' % (
                          lk, 'claim' if claim else 'refund',
                          'accepted' if o == ACCEPT else 'rejected', who,
                          'before_deadline' if t < deadline else 'at_or_after_deadline',
                          'flag_allowed' if flag_ok else 'flag_not_allowed'),
                      step=i, detail={'step': step, 'reads': reads, 'deadline': deadline})
        if obs == ACCEPT and step['out'] not in spent:
            spent[step['out']] = i
            if lk.startswith('htlc') and step['wkind'] in ('htlc', 'htlc2'):
                revealed[step['out']] = items[-1]
        run.sched.append([step['wkind'], step['actor'], step['validator'], len(reads),
                          [f['kind'] for f in step['faults']]])
        run.ev('att', i, step['out'], step['wkind'], step['actor'], t, reads, obs, mdl)
        # probes / cells
        refund_path = (lk.startswith('htlc') and pm != 'right') or \
                      (lk.startswith('ptlc') and not bool_of(items[-1]))
        if who_is(step, 'S') and refund_path:
            if t == deadline:
                run.probe('refund_at_deadline')
            if t == deadline - 1:
                run.probe('refund_deadline_minus_1')
            if reads and step['thr'] > 0 and t - int(reads[-1]) == step['thr']:
                run.probe('refund_future_eq_thr')
        if who_is(step, 'R') and t >= deadline and obs == ACCEPT:
            run.probe('claim_after_deadline')
        if lk == 'ptlc_tweak' and step['wkind'] == 'ptlc' and step['actor'] == 'R':
            run.probe('tweak_used')
        run.probe('pair_%s_%s' % (lk, step['wkind']))
        if mdl != EITHER:
            dcls = '<' if t < deadline - 1 else '>' if t > deadline + 1 else str(t - deadline)
            scls = 'off' if step['thr'] <= 0 else (
                slack_tripped_int(t, reads, step['thr'])[6:14])
            run.cell(lk, step['wkind'], step['actor'], pm, dcls, scls, corrupted or '-', obs)
        if run.sample is None and i == 0:
            run.sample = {'output': out, 'step': step, 'created': created, 'reads': reads,
                          'observed': obs, 'model': mdl}
    for k, v in CLOCK.fired.items():
        run.fault(k, v)
        if k == 'step_between_reads':
            run.probe('step_between_reads', v)
    run.fault_free = bool(kn.get('fault_free'))
    run.sim_us = CLOCK.tau


def who_is(step, a):
    return step['actor'] == a


def shrink(plan):
    p = plan
    used = {s['out'] for s in p['steps']}
    for oid in sorted(p['outputs']):
        if oid not in used:
            c = copy.deepcopy(p)
            del c['outputs'][oid]
            yield c
    for name in sorted(p['clocks']):
        if name != 'S' and not any(s['validator'] == name for s in p['steps']):
            c = copy.deepcopy(p)
            del c['clocks'][name]
            yield c
    if p['knobs']['latency_us']:
        c = copy.deepcopy(p)
        c['knobs']['latency_us'] = 0
        yield c
    for i, s in enumerate(p['steps']):
        if s.get('corrupt'):
            c = copy.deepcopy(p)
            c['steps'][i]['corrupt'] = None
            yield c
        for j in range(len(s['faults'])):
            c = copy.deepcopy(p)
            del c['steps'][i]['faults'][j]
            yield c
    for name in sorted(p['clocks']):
        for key in ('drift_ppm', 'frac_us', 'offset_us'):
            if p['clocks'][name].get(key):
                c = copy.deepcopy(p)
                c['clocks'][name][key] = 0
                yield c
