"""C18 -- anonymous multi-hop locks: consistent setup and right-to-left release
cascade.  An n-party protocol over a faulty network with crashes.
DESIGN.md section 3.5."""
import copy
import heapq

import nacl.bindings as nb

from ..prng import Rng, mix
from ..seams import CLOCK, F, T, AMHLmod, reset_world
from ..seams import LIB_ERRORS
from ..core import real, RealCodeRaised
from ..oracle import caching_flags_off
from ..oracle import (L, ed_verify, sig_message, base_mult, point_add, pubkey_of_seed,
                      scalar_to_int, int_to_scalar, as_key_arg, LOCK_FORMS, LIMITS, in_form,
                      ARG_STYLES, styled_flags, styled_sigfields)

AMHL = AMHLmod.AMHL
PID = 'C18'
ISOLATE = True      # one forked process per run: nothing a run does to process-global
                    # state can reach another run, so every run replays on its own
RUNS = {'quick': 12000, 'thorough': 250000}
STEP_KEYS = ['steps']
BATCH = 4           # runs per forked process (see core.execute_seq)
COMPONENTS = {
    'real': ['setup_amhl', 'AMHL.setup', 'AMHL.setup_for', 'AMHL.check_setup', 'AMHL.release',
             'AMHL.verify_lock_key', 'AMHL.scalar_sum', 'release_left_amhl_lock',
             'make_adapter_locks_pub', 'make_adapter_witness', 'decrypt_adapter',
             'make_ptlc_lock', 'make_ptlc_refund_witness', 'make_single_sig_lock',
             'run_script', 'run_auth_scripts', 'OP_CHECK_ADAPTER_SIG', 'OP_DECRYPT_ADAPTER_SIG'],
    'stub': ['parties P0..Pn (retransmission, persistence, restart logic)',
             'network (delay, drop, duplicate, reorder, corrupt, partition)',
             'ledger + validator clock', 'attacker M (sees every message and the ledger)'],
}
RULE = ('each run = 1-2 concurrent AMHL chains of 2-8 payers set up by the real '
        'setup_amhl and executed as a message-passing protocol (views, adapters, '
        'acks, ledger) over a network with seeded delay / drop / duplicate / reorder '
        '/ single-bit corruption / partitions, party crash-restarts and stalls, and '
        'adversarial claim attempts with every scalar seen so far; run i has '
        'n = 2 + i mod 7 payers; non-trivial = every invariant evaluation; distinct '
        '= distinct tuples (n, refund keys, event kind, hop position, fault in '
        'flight, outcome)')
REQUIRED_PROBES = ['n_%d' % k for k in range(2, 9)] + [
    'early_claim_attempt', 'wrong_hop_scalar', 'other_chain_scalar', 'crash_mid_cascade',
    'duplicate_signature_publication', 'partition_healed', 'with_refund_keys',
    'refund_after_timeout', 'refund_before_timeout', 'cascade_completed',
    'corrupt_adapter_rejected', 'corrupt_publication_rejected', 'view_corrupted_probe',
    'same_seed_other_length', 'seedless_setup', 'partial_refund_keys',
    'sibling_seed_beyond_32_bytes', 'refund_map_names_foreign_keys']
RTO = 400           # ms, retransmission timeout of the party stubs
BASE = 20           # ms, base one-way latency
HORIZON = 120_000   # ms of simulated time per run at most


def gen_plan(run_seed, idx, tier):
    rng = Rng(run_seed)
    fault_free = (idx % 4 == 3)
    n = 2 + idx % 7
    two = (not fault_free) and rng.chance(1, 4) and n <= 5
    refund = rng.chance(1, 3)
    chains = []
    for c in range(2 if two else 1):
        chains.append({'seed': rng.bytes(rng.choice([0, 1, 16, 32, 32, 64])).hex(),
                       'n': n if c == 0 else rng.rng(2, 4),
                       'flags': rng.choice(['00', '00', '01', '03', '80', '81', 'a5', '40', 'ff']),
                       'refund': refund and c == 0,
                       'keys': rng.choice(['bytes', 'bytes', 'bytes', 'object']),
                       'form': rng.choice(LOCK_FORMS), 'limits': rng.below(len(LIMITS)),
                       'style': rng.choice(ARG_STYLES),
                       'sa_plus_kL': rng.choice([0, 0, 0, 0, 0, 1, 3, 7]),
                       'refund_map_wider': rng.chance(1, 3),
                       'witness_as': rng.choice(['bytes', 'bytes', 'object']),
                       # claimants may publish sig || 00 where no flag is needed: the
                       # lock accepts it, and it is what the left neighbour then reads
                       'publish_flag00': rng.chance(1, 3),
                       'refund_hops': None if rng.chance(1, 2) else
                       sorted(rng.sample(range(8), rng.rng(1, 4))),
                       'timeout': rng.choice([30, 60, 3600]),
                       'sigfields': [{'sigfield%d' % k: rng.bytes(rng.choice([0, 1, 4, 32, 256, 480])).hex()
                                      for k in rng.sample(range(1, 9), rng.rng(1, 2))}
                                     for _ in range(8)]})
    if len(chains) == 2 and rng.chance(1, 2):
        # two payments whose seeds share a long prefix (master secret || payment id):
        # different seeds, different chains -- nothing of one may open the other
        base = rng.bytes(rng.choice([32, 32, 40]))
        chains[0]['seed'] = (base + rng.bytes(rng.choice([1, 8]))).hex()
        chains[1]['seed'] = (base + rng.bytes(rng.choice([1, 8, 9]))).hex()
        if chains[0]['seed'] == chains[1]['seed']:
            chains[1]['seed'] += '00'
        chains[0]['shared_prefix'] = chains[1]['shared_prefix'] = True
    if len(chains) == 1 and rng.chance(1, 5):
        # the same seed is used again for a route of another length (a wallet
        # that re-plans a payment): setup must be a function of (seed, n) only
        c2 = copy.deepcopy(chains[0])
        c2['n'] = rng.choice([k for k in range(2, 9) if k != n])
        c2['refund'] = False
        c2['same_seed'] = True
        if rng.chance(1, 2):
            chains.append(c2)
        else:
            chains.insert(0, c2)
            chains[1]['refund'] = False
            chains[0]['refund'] = refund
    nparties = max(c['n'] for c in chains) + 1
    plan = {'property': PID, 'run_seed': run_seed, 'idx': idx,
            'knobs': {'fault_free': fault_free, 'thr': 60,
                      'epoch0_s': rng.choice([1_700_000_000, 1_700_000_000, 100_000,
                                              2 ** 31 - 20, 2 ** 31 + 1000, 2 ** 32 + 12345])},
            'parties': [rng.bytes(32).hex() for _ in range(nparties)],
            'refund_seeds': [rng.bytes(32).hex() for _ in range(nparties)],
            'chains': chains,
            'net': {'jitter_seed': rng.u64(), 'faults': {}},
            'steps': []}
    if fault_free:
        return plan
    # network faults on up to ~20% of the first messages
    nmsg = 6 * nparties * len(chains) + 10
    kinds = rng.sample(['drop', 'dup', 'delay', 'corrupt'], rng.rng(1, 4))
    rate = rng.choice([0, 5, 10, 20])
    for m in range(nmsg * 3):
        if rng.below(100) < rate:
            k = rng.choice(kinds)
            f = {'kind': k}
            if k == 'delay':
                f['ms'] = rng.choice([50, 300, 1000, 5000])
            if k == 'corrupt':
                f['bit'] = rng.below(8 * 600)
            plan['net']['faults'][str(m)] = f
    st = plan['steps']
    t_setup = 450 + 210 * n      # half of the typical cascade span (ms)
    for _ in range(rng.below(3)):
        p = rng.below(nparties)
        at = rng.below(2 * t_setup)
        st.append({'at': at, 'act': 'crash', 'party': p})
        st.append({'at': at + rng.choice([10, 500, 3000]), 'act': 'restart', 'party': p})
    if rng.chance(1, 3):
        cut = rng.rng(1, nparties - 1)
        at = rng.below(2 * t_setup)
        st.append({'at': at, 'act': 'partition', 'left': list(range(cut)),
                   'until': at + rng.choice([300, 2000, 8000])})
    if rng.chance(1, 4):
        p = rng.below(nparties)
        at = rng.below(2 * t_setup)
        st.append({'at': at, 'act': 'stall', 'party': p, 'until': at + rng.choice([500, 3000])})
    for _ in range(rng.rng(1, 6)):
        st.append({'at': 600 + rng.below(2 * t_setup + 2000), 'act': 'attack',
                   'chain': rng.below(len(chains)), 'hop': rng.below(8),
                   'how': rng.choice(['extracted', 'diff', 'sum', 'other_chain', 'adapter_as_sig',
                                      'neighbour_y', 'T_as_scalar'])})
    for _ in range(rng.below(3)):
        st.append({'at': 400 + rng.below(2 * t_setup), 'act': 'early_claim',
                   'chain': 0, 'party': rng.rng(1, nparties - 1)})
    if rng.chance(1, 3):
        st.append({'at': 800 + rng.below(2 * t_setup + 2000), 'act': 'republish', 'chain': 0, 'hop': rng.below(8)})
    if refund:
        for _ in range(rng.rng(1, 3)):
            st.append({'at': rng.choice([rng.below(5000), chains[0]['timeout'] * 1000 + rng.below(20000)]),
                       'act': 'refund', 'chain': 0, 'hop': rng.below(8),
                       'dt': rng.choice([-1, 0, 1, 30])})
    if rng.chance(1, 3):
        st.append({'at': rng.below(200), 'act': 'corrupt_view', 'chain': 0,
                   'party': rng.rng(1, nparties - 1), 'bit': rng.below(32 * 8 * 3)})
    st.sort(key=lambda s: (s['at'], s['act'], s.get('party', 0), s.get('hop', 0)))
    return plan


# ------------------------------------------------------------------ simulation

def noncanonical(wb, k):
    """the adapter witness with sa written as sa + k*L (k = 1..7: still below 2^255): the
    same scalar in another encoding, which a payer is free to send"""
    if not k or len(wb) != 68:
        return wb
    v = scalar_to_int(wb[2:34]) + k * L
    if v >= 1 << 255:
        return wb
    return wb[:2] + v.to_bytes(32, 'little') + wb[34:]


def pb(item):
    if len(item) < 256:
        return bytes([F.opcodes_inverse['OP_PUSH1'][0], len(item)]) + item
    return bytes([F.opcodes_inverse['OP_PUSH2'][0]]) + len(item).to_bytes(2, 'big') + item


def flipbits(b, bit):
    bit %= max(len(b) * 8, 1)
    a = bytearray(b)
    a[bit // 8] ^= 1 << (bit % 8)
    return bytes(a)


class Chain:
    def __init__(self, ci, spec, plan, run):
        self.ci = ci
        self.spec = spec
        self.n = spec['n']
        self.flags = spec['flags']
        self.bflags = styled_flags(spec['flags'], spec.get('style', 'plain'))   # as spelled for builders
        seeds = [bytes.fromhex(s) for s in plan['parties']]
        self.seeds = seeds
        self.pks = [pubkey_of_seed(s) for s in seeds]
        self.rseeds = [bytes.fromhex(s) for s in plan['refund_seeds']]
        self.rpks = [pubkey_of_seed(s) for s in self.rseeds]
        self.sf = [{k: bytes.fromhex(v) for k, v in spec['sigfields'][i].items()} for i in range(self.n)]
        seed = bytes.fromhex(spec['seed'])
        self.rhops = set()
        if spec['refund']:
            hops = spec.get('refund_hops')
            self.rhops = set(range(self.n)) if hops is None else {h for h in hops if h < self.n}
            if self.rhops != set(range(self.n)):
                run.probe('partial_refund_keys')
        refunds = {self.pks[i]: self.rpks[i] for i in sorted(self.rhops)} if spec['refund'] else None
        if refunds is not None and spec.get('refund_map_wider') and len(self.pks) > self.n:
            # the map was made for a longer route / is the wallet's registry: it also names
            # keys that pay nothing on this route (documented: such entries are ignored)
            for j in range(self.n, len(self.pks)):
                refunds[self.pks[j]] = self.rpks[j]
            run.probe('refund_map_names_foreign_keys')
        self.refunds_arg = refunds
        CLOCK.begin_call('P0')
        try:
            how = spec.get('keys', 'bytes')
            pk_arg = [as_key_arg('pub', x, how) for x in self.pks[:self.n]]
            if how == 'object':
                pk_arg = tuple(pk_arg)
            self.res = real('setup_amhl', T.setup_amhl, seed, pk_arg, self.bflags,
                            refunds, spec['timeout'])
        finally:
            reads = CLOCK.end_call()
        self.created = int(reads[0]) if reads else None
        self.key = self.res['key']
        self.hops = [self.res[self.pks[i]] for i in range(self.n)]     # (script1, script2, T, k)
        if seed:
            # a seeded setup is reproducible: the views come from the documented
            # AMHL.setup / setup_for and must agree with what setup_amhl returned
            self.setup = real('AMHL.setup', AMHL.setup, self.n, seed)
            self.views = [real('AMHL.setup_for', AMHL.setup_for, self.setup, i)
                          for i in range(self.n + 1)]
            self.y = list(self.setup[0])
            self.Y = list(self.setup[1])
        else:
            # an empty seed means "draw a fresh one": the only consistent source of
            # the parties' views is the result of that one setup_amhl call
            run.probe('seedless_setup')
            self.y = [h[3] for h in self.hops]
            self.Y = [h[2] for h in self.hops]
            self.views = [(self.y[0],)] + \
                [(self.Y[i - 1], self.Y[i], self.y[i]) for i in range(1, self.n)] + \
                [((self.Y[self.n - 1], 0, 0), self.key)]
        self.claimed = {}       # hop -> (time, sig64, by)
        self.refunded = {}
        self.ledger = []        # (time, hop, kind)
        # A1: setup algebra, by independent point sums
        acc = None
        tsum = 0
        ok = True
        for i in range(self.n):
            p = base_mult(self.y[i])
            acc = p if acc is None else point_add(acc, p)
            tsum = (tsum + scalar_to_int(self.y[i])) % L
            ok = ok and self.hops[i][2] == acc and self.Y[i] == acc
            ok = ok and self.hops[i][3] == self.y[i]
        self.t_int = []
        s = 0
        for i in range(self.n):
            s = (s + scalar_to_int(self.y[i])) % L
            self.t_int.append(s)
        ok = ok and base_mult(self.key) == acc and scalar_to_int(self.key) % L == tsum
        ok = ok and AMHL.verify_lock_key(self.hops[-1][2], self.key) is True
        ok = ok and self.views[self.n][1] == self.key
        # the views as documented by AMHL.setup_for: (y0,) for the sender, (left point,
        # right point, own scalar) for an intermediary, ((left point, 0, 0), key) for
        # the receiver -- each party's lock points are the chain's
        ok = ok and tuple(self.views[0]) == (self.y[0],)
        ok = ok and all(tuple(self.views[i]) == (self.Y[i - 1], self.Y[i], self.y[i])
                        for i in range(1, self.n))
        ok = ok and tuple(self.views[self.n][0]) == (self.Y[self.n - 1], 0, 0)
        run.check('A1_setup_algebra', ok, 'C18/setup/tweak_points_are_not_prefix_sums_or_key_wrong',
                  detail={'n': self.n})
        if seed:
            # another seed is another chain, however similar: a seed that extends this
            # one, and one that differs from it only beyond its 32nd byte
            sibs = [seed + b'\x00', seed + b'x' * 33]
            if len(seed) > 32:
                sibs.append(seed[:-1] + bytes([seed[-1] ^ 1]))
                run.probe('sibling_seed_beyond_32_bytes')
            for sb in sibs:
                other = real('AMHL.setup', AMHL.setup, self.n, sb)
                okey = AMHL.scalar_sum(*other[0])
                run.check('A1_other_seed_other_chain',
                          other[0][0] != self.y[0] and other[1][-1] != self.Y[-1] and
                          AMHL.verify_lock_key(self.hops[-1][2], okey) is False,
                          'C18/setup/another_seed_yields_the_same_secrets', detail={'n': self.n})
        # a wrong key must not verify
        bad = int_to_scalar(scalar_to_int(self.key) + 1)
        run.check('A1_verify_lock_key_rejects', AMHL.verify_lock_key(self.hops[-1][2], bad) is False,
                  'C18/setup/verify_lock_key_accepts_wrong_key')

    def T_of(self, hop):
        return self.hops[hop][2]


class Party:
    def __init__(self, idx):
        self.idx = idx
        self.up = True
        self.stalled_until = -1
        self.inbox = []
        self.reset_volatile()
        self.durable = {}       # (chain, what) -> value

    def reset_volatile(self):
        self.acked = set()      # messages known to be acked (volatile)
        self.tries = {}         # claim attempts per hop (a party gives up after 6)
        self.cache = {}         # derived values, recomputed after a restart


class Sim:
    def __init__(self, plan, run):
        self.plan = plan
        self.run = run
        self.now = 0
        self.seq = 0
        self.q = []
        self.msg_index = 0
        self.partitions = []    # (left set, until)
        self.last_fault_at = 0
        self.max_fault_index = max([int(k) for k in plan['net']['faults']] or [-1])
        self.seen_adapters = {}     # (chain, hop) -> witness bytes seen by M
        self.extracted = {}         # (chain, hop) -> scalar bytes extracted by M
        kn = plan['knobs']
        CLOCK.add_node('P0', epoch0_s=kn['epoch0_s'], frac=False)
        CLOCK.add_node('V', epoch0_s=kn['epoch0_s'], frac=False)
        self.chains = [Chain(ci, spec, plan, run) for ci, spec in enumerate(plan['chains'])]
        self.np = len(plan['parties'])
        self.parties = [Party(i) for i in range(self.np)]

    # -- event queue
    def after(self, ms, fn, *a):
        self.seq += 1
        heapq.heappush(self.q, (self.now + ms, self.seq, fn, a))

    def at(self, t, fn, *a):
        self.seq += 1
        heapq.heappush(self.q, (max(t, self.now), self.seq, fn, a))

    # -- network
    def cut(self, a, b):
        for left, until in self.partitions:
            if self.now < until and ((a in left) != (b in left)):
                return True
        return False

    def send(self, src, dst, msg):
        mi = self.msg_index
        self.msg_index += 1
        f = self.plan['net']['faults'].get(str(mi))
        delay = BASE + mix(self.plan['net']['jitter_seed'], mi) % 30
        self.run.sched.append(['send', msg[0], src, dst, (f or {}).get('kind', '')])
        self.run.ev('send', self.now, mi, msg[0], src, dst, (f or {}).get('kind', ''))
        if msg[0] == 'adapter':
            self.seen_adapters[(msg[1], msg[2])] = msg[3]
        if self.cut(src, dst):
            self.run.fault('partition_drop')
            return
        if f:
            k = f['kind']
            self.last_fault_at = max(self.last_fault_at, self.now)
            if k == 'drop':
                self.run.fault('drop')
                return
            if k == 'dup':
                self.run.fault('dup')
                self.after(delay * 2 + 7, self.deliver, dst, msg)
            elif k == 'delay':
                self.run.fault('delay')
                delay += f['ms']
            elif k == 'corrupt':
                if msg[0] in ('adapter', 'publish'):
                    self.run.fault('corrupt_' + msg[0])
                    msg = msg[:3] + (flipbits(msg[3], f['bit']),) + msg[4:] + ('corrupted',)
        self.after(delay, self.deliver, dst, msg)

    def deliver(self, dst, msg):
        if dst == 'L':
            return self.ledger_receive(msg)
        p = self.parties[dst]
        if not p.up:
            self.run.fault('lost_at_crashed_party')
            return
        if self.now < p.stalled_until:
            p.inbox.append(msg)
            return
        self.handle(p, msg)

    # -- party logic (stub logic around real calls)
    def start(self):
        for ch in self.chains:
            self.parties[0].durable[(ch.ci, 'origin')] = True
            self.at(0, self.tick, 0)
        for i in range(1, self.np):
            self.at(0, self.tick, i)

    def tick(self, i):
        """periodic driver of party i: (re)send whatever is not acked, act on the ledger"""
        p = self.parties[i]
        if p.up and self.now >= p.stalled_until:
            if p.inbox:
                box, p.inbox = p.inbox, []
                for m in box:
                    self.handle(p, m)
            for ch in self.chains:
                self.drive(p, ch)
        if self.now < HORIZON and not self.all_done():
            self.after(RTO, self.tick, i)

    def all_done(self):
        return all(len(ch.claimed) + len(ch.refunded) >= ch.n for ch in self.chains)

    def drive(self, p, ch):
        i, c = p.idx, ch.ci
        if i > ch.n:
            return
        if i == 0:
            for j in range(1, ch.n + 1):
                if ('view', c, j) not in p.acked:
                    self.send(0, j, ('view', c, j, ch.views[j]))
            view = ch.views[0]
        else:
            view = p.durable.get((c, 'view'))
            if view is None:
                return
        # outbound adapter (payers 0..n-1)
        if i < ch.n and ('adapter', c, i) not in p.acked:
            Ti = AMHL.oneway(view[0]) if i == 0 else view[1]
            wb = p.cache.get((c, 'out_witness'))
            if wb is None:
                # (re)derived from durable state after every restart
                wb = real('make_adapter_witness', T.make_adapter_witness, ch.seeds[i], Ti,
                          styled_sigfields(ch.sf[i], ch.spec.get('style', 'plain')), ch.bflags).bytes
                wb = noncanonical(wb, ch.spec.get('sa_plus_kL', 0))
                p.cache[(c, 'out_witness')] = wb
            p.durable[(c, 'out_witness')] = wb
            self.send(i, i + 1, ('adapter', c, i, wb))
        # claim inbound hop i-1 when possible
        if i >= 1 and (i - 1) not in ch.claimed and (i - 1) not in ch.refunded:
            inbound = p.durable.get((c, 'in_adapter'))
            if inbound is None:
                return
            z = None
            if i == ch.n:
                z = view[1]
            elif i in ch.claimed:
                out_w = p.durable.get((c, 'out_witness'))
                # the party hands over the item as it stands on the ledger; where the
                # library refuses its trailing flag byte, it strips the byte and retries
                pub = ch.claimed[i][3]
                try:
                    z = T.release_left_amhl_lock(self.wit_arg(ch, out_w), pub, view[2])
                    if len(pub) == 65:
                        self.run.probe('release_took_65_byte_item')
                except LIB_ERRORS as e:
                    if len(pub) != 65:
                        raise RealCodeRaised('release_left_amhl_lock', e)
                    self.run.probe('release_refused_65_byte_item')
                    z = real('release_left_amhl_lock', T.release_left_amhl_lock,
                             self.wit_arg(ch, out_w), pub[:64], view[2])
                # A4: exactly sum_{j<i} y_j mod L
                self.run.check('A4_release_value', scalar_to_int(z) % L == ch.t_int[i - 1],
                               'C18/release/left_scalar_is_not_prefix_sum', detail={'n': ch.n, 'i': i})
                if p.durable.get((c, 'crashed_mid')):
                    self.run.probe('crash_mid_cascade')
            tries = p.tries.get((c, i - 1), 0)
            if z is not None and tries < 6:
                # (give-up counter only runs once the network has been quiet for a
                # while: a stub optimisation, so that a permanently rejected claim
                # does not cost 300 retries; it never applies while faults flow)
                if self.now > self.last_fault_at + 12 * RTO and self.msg_index > self.max_fault_index:
                    p.tries[(c, i - 1)] = tries + 1
                sig = real('decrypt_adapter', T.decrypt_adapter, self.wit_arg(ch, inbound), z)
                self.run.check('A4_decrypted_left_signature_valid',
                               ed_verify(ch.pks[i - 1], sig_message(ch.sf[i - 1], int(ch.flags, 16)), sig),
                               'C18/release/decrypted_left_adapter_is_not_a_valid_signature',
                               detail={'n': ch.n, 'i': i})
                self.send(i, 'L', ('publish', c, i - 1, sig, i, 'claim', z))

    def handle(self, p, msg):
        k = msg[0]
        c = msg[1]
        ch = self.chains[c]
        run = self.run
        if k == 'view':
            _, _, j, view = msg[:4]
            damaged = len(msg) > 4
            if damaged:
                # completeness only is promised for check_setup: a damaged view is
                # delivered and probed, whatever happens is recorded, not judged
                try:
                    ok = AMHL.check_setup(view, j, ch.n)
                except LIB_ERRORS:
                    ok = False
            else:
                ok = real('AMHL.check_setup', AMHL.check_setup, view, j, ch.n)
            if not damaged:
                run.check('A2_view_passes', ok is True, 'C18/check_setup/undamaged_view_rejected',
                          detail={'n': ch.n, 'i': j})
            else:
                run.probe('view_corrupted_probe')
                run.cell('corrupt_view', ch.n, j, bool(ok))
            if ok and not damaged:
                p.durable[(c, 'view')] = view
                self.send(p.idx, 0, ('view_ack', c, j))
        elif k == 'view_ack':
            p.acked.add(('view', c, msg[2]))
        elif k == 'adapter':
            _, _, hop, w = msg[:4]
            if hop + 1 != p.idx or hop >= ch.n:
                return
            damaged = len(msg) > 4 or w != self.expected_adapter(ch, hop)
            try:
                ok = F.run_auth_scripts([w, in_form(ch.hops[hop][0], ch.spec.get('form', 'object'))],
                                        dict(ch.sf[hop]), **LIMITS[ch.spec.get('limits', 0)]) is True
            except BaseException:       # noqa
                run.aux_auth_raised += 1
                ok = False
            if damaged:
                run.check('A3_damaged_adapter_rejected', not ok,
                          'C18/adapter/damaged_adapter_passed_hop_lock', detail={'n': ch.n, 'hop': hop})
                run.probe('corrupt_adapter_rejected')
            else:
                run.check('A3_adapter_passes', ok, 'C18/adapter/undamaged_adapter_rejected_by_hop_lock',
                          detail={'n': ch.n, 'hop': hop, 'flags': ch.flags})
            run.cell('adapter', ch.n, 'first' if hop == 0 else 'last' if hop == ch.n - 1 else 'mid',
                     damaged, ok)
            if ok:
                p.durable[(c, 'in_adapter')] = w
                self.send(p.idx, hop, ('adapter_ack', c, hop))
        elif k == 'adapter_ack':
            p.acked.add(('adapter', c, msg[2]))

    def wit_arg(self, ch, wbytes):
        """the tools take an adapter witness as bytes or as a Script object"""
        if ch.spec.get('witness_as') == 'object':
            return T.Script('# adapter witness #', wbytes)
        return wbytes

    def expected_adapter(self, ch, hop):
        """what the honest payer of this hop sends (deterministic signing)"""
        key = ('exp', ch.ci, hop)
        if key not in self.extracted:
            w = T.make_adapter_witness(ch.seeds[hop], ch.T_of(hop), ch.sf[hop], ch.flags)
            self.extracted[key] = noncanonical(w.bytes, ch.spec.get('sa_plus_kL', 0))
        return self.extracted[key]

    # -- ledger and validator
    def ledger_receive(self, msg):
        _, c, hop, sig, by, kind, z = msg[:7]
        ch = self.chains[c]
        run = self.run
        damaged = len(msg) > 7
        if hop >= ch.n or hop < 0:
            return
        lock = in_form(ch.hops[hop][1], ch.spec.get('form', 'object'))
        flagb = bytes.fromhex(ch.flags) if int(ch.flags, 16) else b''
        item = sig + flagb if len(sig) == 64 else sig
        if len(item) == 64 and ch.spec.get('publish_flag00') and not damaged:
            item = sig + b'\x00'
        if kind == 'refund':
            w = sig            # already a witness script
        else:
            w = pb(item) + (T.compile_script('true') if hop in ch.rhops else b'')
        tstamp = CLOCK.local_s('V') + (msg[7] if kind == 'refund' and len(msg) > 7 and isinstance(msg[7], int) else 0)
        F.flags['ts_threshold'] = self.plan['knobs']['thr']
        CLOCK.begin_call('V')
        try:
            try:
                r = F.run_auth_scripts([w, lock], {**ch.sf[hop], 'timestamp': tstamp},
                                       **LIMITS[ch.spec.get('limits', 0)])
            except BaseException:   # noqa
                run.aux_auth_raised += 1
                r = False
        finally:
            CLOCK.end_call()
        ok = r is True
        if kind == 'refund':
            deadline = ch.created + ch.spec['timeout']
            want = tstamp >= deadline and tstamp - CLOCK.local_s('V') < self.plan['knobs']['thr']
            run.check('refund_exact', ok == want,
                      'C18/refund/%s_%s_deadline' % ('accepted' if ok else 'rejected',
                                                     'before' if tstamp < deadline else 'at_or_after'),
                      detail={'hop': hop, 't': tstamp, 'deadline': deadline})
            run.probe('refund_after_timeout' if tstamp >= deadline else 'refund_before_timeout')
            if ok and hop not in ch.claimed and hop not in ch.refunded:
                ch.refunded[hop] = (self.now, by)
                ch.ledger.append((self.now, hop, 'refund'))
            return
        # A5: accepted iff the scalar used opens this hop: z*G == T_hop
        opens = None
        if z is not None:
            try:
                opens = base_mult(z) == ch.T_of(hop) and scalar_to_int(z) % L == ch.t_int[hop]
            except LIB_ERRORS:
                opens = False
        if damaged:
            valid = len(sig) == 64 and ed_verify(ch.pks[hop], sig_message(ch.sf[hop], int(ch.flags, 16)), sig)
            run.check('corrupt_publication_rejected', ok == valid,
                      'C18/ledger/corrupted_signature_%s' % ('accepted' if ok else 'rejected_though_valid'),
                      detail={'hop': hop})
            if not ok:
                run.probe('corrupt_publication_rejected')
        elif opens is not None:
            run.check('A5_claim_iff_scalar_opens_hop', ok == opens,
                      'C18/claim/%s/%s/%s' % (
                          'accepted_with_wrong_scalar' if ok else 'rejected_with_right_scalar',
                          kind, 'refund_keys' if ch.spec['refund'] else 'plain'),
                      detail={'n': ch.n, 'hop': hop, 'by': by, 'kind': kind})
        run.cell('claim', ch.n, ch.spec['refund'], kind,
                 'first' if hop == 0 else 'last' if hop == ch.n - 1 else 'mid', ok)
        run.ev('ledger', self.now, c, hop, kind, str(by), ok)
        if ok:
            if hop in ch.claimed:
                run.probe('duplicate_signature_publication')
                return
            if hop in ch.refunded:
                return
            # history: strictly right to left
            if hop < ch.n - 1:
                run.check('A5_right_to_left', (hop + 1) in ch.claimed,
                          'C18/history/hop_claimed_before_its_right_neighbour', detail={'hop': hop, 'by': by})
            ch.claimed[hop] = (self.now, sig[:64], by, item)
            ch.ledger.append((self.now, hop, 'claim'))
            # M extracts the scalar from the publication and the adapter it saw
            w = self.seen_adapters.get((c, hop))
            if w is not None and len(w) == 68:
                try:
                    self.extracted[(c, hop)] = nb.crypto_core_ed25519_scalar_sub(sig[32:64], w[2:34])
                except LIB_ERRORS:
                    pass
            # parties learn of it on their next tick (they poll the ledger)

    # -- scheduled faults and adversary
    def do_step(self, st):
        run = self.run
        a = st['act']
        run.sched.append(['step', a, st.get('party', st.get('hop', ''))])
        if a in ('crash', 'restart', 'partition', 'stall', 'corrupt_view'):
            self.last_fault_at = max(self.last_fault_at, st.get('until', self.now), self.now)
        if a == 'crash':
            p = self.parties[st['party'] % self.np]
            if p.up:
                p.up = False
                p.inbox = []
                p.reset_volatile()
                run.fault('crash')
                for ch in self.chains:
                    if ch.claimed and len(ch.claimed) < ch.n:
                        p.durable[(ch.ci, 'crashed_mid')] = True
        elif a == 'restart':
            p = self.parties[st['party'] % self.np]
            if not p.up:
                p.up = True
                run.fault('restart')
        elif a == 'partition':
            self.partitions.append((set(st['left']), st['until']))
            run.fault('partition')
            self.at(st['until'], self.healed)
        elif a == 'stall':
            p = self.parties[st['party'] % self.np]
            p.stalled_until = st['until']
            run.fault('stall')
        elif a == 'corrupt_view':
            ch = self.chains[0]
            j = 1 + st['party'] % ch.n
            view = ch.views[j]
            flat = list(view[0]) + [view[1]] if j == ch.n else list(view)
            k = (st['bit'] // 256) % len(flat)
            if isinstance(flat[k], bytes):
                flat[k] = flipbits(flat[k], st['bit'])
                bad = ((flat[0], flat[1], flat[2]), flat[3]) if j == ch.n else tuple(flat)
                run.fault('corrupt_view')
                self.after(BASE, self.deliver, j, ('view', 0, j, bad, 'corrupted'))
        elif a == 'attack':
            self.attack(st)
        elif a == 'early_claim':
            ch = self.chains[0]
            i = 1 + (st['party'] - 1) % ch.n
            p = self.parties[i]
            inbound = p.durable.get((0, 'in_adapter'))
            view = p.durable.get((0, 'view'))
            if inbound is None or view is None or (i - 1) in ch.claimed or i == ch.n:
                return
            if i in ch.claimed:
                return
            run.probe('early_claim_attempt')
            # before its outbound hop is published the party only has its own share
            for z in (view[2], int_to_scalar(scalar_to_int(view[2]) * 2)):
                try:
                    sig = T.decrypt_adapter(inbound, z)
                except LIB_ERRORS:
                    continue
                self.send(i, 'L', ('publish', 0, i - 1, sig, i, 'early', z))
        elif a == 'republish':
            ch = self.chains[st['chain'] % len(self.chains)]
            hop = st['hop'] % ch.n
            if hop in ch.claimed:
                self.send(ch.claimed[hop][2], 'L', ('publish', ch.ci, hop, ch.claimed[hop][1],
                                                    ch.claimed[hop][2], 'republish', None))
        elif a == 'refund':
            ch = self.chains[0]
            if not ch.rhops:
                return
            hop = sorted(ch.rhops)[st['hop'] % len(ch.rhops)]
            if hop in ch.claimed or hop in ch.refunded:
                return
            run.probe('with_refund_keys')
            w = T.make_ptlc_refund_witness(ch.rseeds[hop], ch.sf[hop], ch.bflags)
            deadline = ch.created + ch.spec['timeout']
            dt = st.get('dt', 0)
            # the payer stamps the refund relative to the deadline if the ledger clock is near it
            off = 0
            if abs(CLOCK.local_s('V') - deadline) < 40:
                off = deadline + dt - CLOCK.local_s('V')
            self.deliver('L', ('publish', 0, hop, w.bytes, hop, 'refund', None, off))

    def healed(self):
        self.run.probe('partition_healed')

    def attack(self, st):
        """M uses everything public so far; none of it may open an unclaimed hop"""
        run = self.run
        ch = self.chains[st['chain'] % len(self.chains)]
        hop = st['hop'] % ch.n
        if hop in ch.claimed or hop in ch.refunded:
            return
        w = self.seen_adapters.get((ch.ci, hop))
        if w is None:
            return
        mine = sorted((k for k in self.extracted if k[0] == ch.ci and isinstance(k[1], int)),
                      key=lambda k: k[1])
        other = sorted(k for k in self.extracted if k[0] != ch.ci and k[0] != 'exp' and isinstance(k[1], int))
        how = st['how']
        zs = []
        if how == 'extracted' and mine:
            zs = [self.extracted[k] for k in mine]
            run.probe('wrong_hop_scalar')
        elif how == 'diff' and len(mine) >= 2:
            a, b = self.extracted[mine[0]], self.extracted[mine[-1]]
            zs = [nb.crypto_core_ed25519_scalar_sub(b, a), nb.crypto_core_ed25519_scalar_sub(a, b)]
            run.probe('wrong_hop_scalar')
        elif how == 'sum' and len(mine) >= 2:
            zs = [nb.crypto_core_ed25519_scalar_add(self.extracted[mine[0]], self.extracted[mine[-1]])]
            run.probe('wrong_hop_scalar')
        elif how == 'other_chain' and other and not any(c.spec.get('same_seed') for c in self.chains):
            zs = [self.extracted[k] for k in other]
            run.probe('other_chain_scalar')
        elif how == 'neighbour_y':
            # a colluding right neighbour of the *next* hop contributes its share only
            zs = [ch.y[min(hop + 1, ch.n - 1)]]
            if hop == ch.n - 1:
                zs = [ch.y[0]] if ch.n > 1 else []
            run.probe('wrong_hop_scalar')
        elif how == 'T_as_scalar':
            zs = [ch.T_of(hop)[:31] + bytes([ch.T_of(hop)[31] & 0x0f])]
        elif how == 'adapter_as_sig' and len(w) == 68:
            self.deliver('L', ('publish', ch.ci, hop, w[36:68] + w[2:34], 'M', 'adapter_as_sig',
                               int_to_scalar(0)))
            return
        for z in zs:
            if scalar_to_int(z) % L == 0:
                continue
            try:
                sig = T.decrypt_adapter(w, z)
            except LIB_ERRORS:
                continue
            self.deliver('L', ('publish', ch.ci, hop, sig, 'M', 'attack_' + how, z))

    # -- main loop
    def run_all(self):
        self.start()
        for st in self.plan['steps']:
            self.at(st['at'], self.do_step, st)
        events = 0
        while self.q and events < 60000 and not self.run.violations:
            t, _, fn, a = heapq.heappop(self.q)
            if t > HORIZON:
                break
            self.now = t
            CLOCK.tau = t * 1000
            fn(*a)
            events += 1
        return events


def execute(plan, run):
    reset_world(plan['run_seed'])
    if plan['idx'] % 7 == 3:
        # every seventh run: some of the cache-this-value flags are switched off
        if caching_flags_off(plan['run_seed']):
            run.probe('caching_flags_off')
    sim = Sim(plan, run)
    events = sim.run_all()
    run.probe('n_%d' % sim.chains[0].n)
    last_fault = sim.last_fault_at
    for ch in sim.chains:
        if run.violations:
            break       # the run was cut short at its first violation
        done = len(ch.claimed) == ch.n
        if done:
            run.probe('cascade_completed')
            order = [h for _, h, k in ch.ledger if k == 'claim']
            run.check('A5_history_right_to_left', order == sorted(order, reverse=True),
                      'C18/history/claims_not_right_to_left', detail={'order': order})
            # every published signature verifies under its payer's key (nacl)
            ok = all(ed_verify(ch.pks[h], sig_message(ch.sf[h], int(ch.flags, 16)), ch.claimed[h][1])
                     for h in ch.claimed)
            run.check('A4_published_signatures_verify', ok, 'C18/ledger/published_signature_invalid')
            t_done = max(t for t, _, _ in ch.ledger)
            # A6 bounded liveness: within 3n rounds after the last fault (a round =
            # RTO + delivery), excluded when refunds interleave
            if not ch.refunded:
                bound = last_fault + (3 * ch.n + 6) * (RTO + 200)
                run.check('A6_liveness', t_done <= bound,
                          'C18/liveness/cascade_not_completed_within_bound_after_last_fault',
                          detail={'t_done': t_done, 'last_fault': last_fault, 'bound': bound, 'n': ch.n})
        else:
            stuck_ok = bool(ch.refunded) or any(not p.up for p in sim.parties)
            run.check('A6_liveness', stuck_ok,
                      'C18/liveness/cascade_never_completed', detail={
                          'claimed': sorted(ch.claimed), 'n': ch.n, 'events': events})
        run.ev('chain', ch.ci, ch.n, [(t, h, k) for t, h, k in ch.ledger])
        run.cell('end', ch.n, ch.spec['refund'], done, len(ch.refunded))
    if not run.violations:
        for ch in sim.chains:
            # A1b: setup is a function of its arguments (P0 re-plans / restarts):
            # the same call again returns the same tweak points and key
            if ch.spec.get('same_seed'):
                run.probe('same_seed_other_length')
            if not ch.spec['seed']:
                continue        # seedless: legitimately different every time
            # the very same argument objects (the refund-key dict included), at the same
            # instant of P0's clock: everything must come out identical, PTLC locks and
            # their deadlines too
            refunds = ch.refunds_arg
            CLOCK.latency_us = 0
            if ch.created is not None:
                CLOCK.step('P0', ch.created * 1_000_000 - CLOCK.local_us('P0'))
            CLOCK.begin_call('P0')
            try:
                again = real('setup_amhl', T.setup_amhl, bytes.fromhex(ch.spec['seed']),
                             ch.pks[:ch.n], ch.flags, refunds, ch.spec['timeout'])
            finally:
                CLOCK.end_call()
            same = again['key'] == ch.key and all(
                again[ch.pks[i]][2] == ch.hops[i][2] and again[ch.pks[i]][3] == ch.hops[i][3] and
                again[ch.pks[i]][0].bytes == ch.hops[i][0].bytes and
                again[ch.pks[i]][1].bytes == ch.hops[i][1].bytes for i in range(ch.n))
            run.check('A1_setup_is_a_function_of_its_arguments', same,
                      'C18/setup/repeated_setup_differs', detail={'n': ch.n})
    run.fault_free = bool(plan['knobs'].get('fault_free'))
    run.sample = {'chains': [{'n': c['n'], 'flags': c['flags'], 'refund': c['refund']} for c in plan['chains']],
                  'steps': plan['steps'][:6], 'net_faults': dict(list(plan['net']['faults'].items())[:5]),
                  'ledger': [[(t, h, k) for t, h, k in ch.ledger] for ch in sim.chains]}
    run.sim_us = sim.now * 1000


def shrink(plan):
    p = plan
    for k in sorted(p['net']['faults'], key=int):
        c = copy.deepcopy(p)
        del c['net']['faults'][k]
        yield c
    if len(p['chains']) > 1:
        c = copy.deepcopy(p)
        c['chains'] = p['chains'][:1]
        yield c
    if p['chains'][0]['n'] > 2:
        c = copy.deepcopy(p)
        c['chains'][0]['n'] -= 1
        yield c
