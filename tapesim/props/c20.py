"""C20 -- unassigned opcodes are soft-fork-safe no-ops.  DESIGN.md section 3.7.

A mixed-version network: 2-4 validator nodes, each its own OS process forked
from the pristine image (registries are process-global and an opcode cannot be
removed), driven in lock-step over pipes.  Activation of a fork is an event in
a node's history; transactions are delivered to every node with seeded delay,
duplication and reordering, so the same transaction meets a node before and
after its activation."""
import copy
import os
import pickle
import struct

from ..prng import Rng
from ..seams import F, P, T, ScriptExecutionError, HarnessError, reset_world
from ..seams import LIB_ERRORS
from ..oracle import sha256

PID = 'C20'
ISOLATE = True      # one forked process per run: nothing a run does to process-global
                    # state can reach another run, so every run replays on its own
RUNS = {'quick': 2500, 'thorough': 40000}
STEP_KEYS = ['steps']
BATCH = 1           # runs per forked process (see core.execute_seq)
CODES = list(range(92, 256))
COMPONENTS = {
    'real': ['NOP / nopcodes table', 'run_tape fallback', 'add_soft_fork', 'add_opcode',
             'add_opcode_parsing_handlers', 'compile_script', 'decompile_script',
             'run_script', 'run_auth_scripts', 'OP_IF/IF_ELSE/DEF/CALL/EVAL/LOOP/TRY/MERKLEVAL nesting',
             'make_merklized_script_prioritized'],
    'stub': ['validator nodes (one OS process each, command loop over pipes)',
             'wallet / program generator', 'network delivery (delay, duplicate, reorder)',
             'node crash + restart (pristine re-fork)', 'conforming fork-op family'],
}
RULE = ('each run = a mixed-version network of 2-4 node processes, 1-3 soft forks '
        'from a family of conforming ops activated at per-node instants (or never, '
        'or with invalid arguments, or lost by a crash-restart), and 25-60 '
        'transactions (closed-form NOP probes, fork transactions satisfying / '
        'violating the predicate, generated programs with the forked code nested '
        'to depth 3, name/alias/NOPn spellings) each delivered to every node with '
        'seeded delay / duplication / reordering; run i uses codes starting at '
        '92 + (i mod 164); non-trivial = a delivery with a definite expected '
        'verdict or a comparable pair; distinct = distinct tuples (tx kind, code '
        'class, count class, depth class, nest, active-set size, verdict)')
REQUIRED_PROBES = ['count_negative', 'count_gt_depth', 'count_eq_depth',
                   'delivered_before_and_after_activation', 'three_version_mix',
                   'nested_depth_3', 'try_wrapped_exempt', 'name_lowercase',
                   'alias_lowercase', 'failed_activation', 'node_restart',
                   'program_accepted_upgraded', 'upgraded_rejects_legacy_accepts',
                   'merkleval_program_accepted_upgraded', 'nop_probe_nested',
                   'count_in_upper_case_hex']
SPELL_CONTEXTS = ['true if { %s }', 'def 0 { %s }', 'try { %s } except { true }',
                  'true loop { %s false }', 'false if { true } else { %s }']
PREDS = ['all_equal', 'all_distinct', 'none_empty', 'total_len_le', 'first_is_sha_of_second',
         'count_eq', 'always', 'never']


# ---------------------------------------------------------------- fork ops

def pred_holds(pred, k, items):
    if pred == 'all_equal':
        return all(i == items[0] for i in items)
    if pred == 'all_distinct':
        return len(set(items)) == len(items)
    if pred == 'none_empty':
        return all(len(i) > 0 for i in items)
    if pred == 'total_len_le':
        return sum(len(i) for i in items) <= k
    if pred == 'first_is_sha_of_second':
        return len(items) < 2 or items[0] == sha256(items[1])
    if pred == 'count_eq':
        return len(items) == k
    if pred == 'always':
        return True
    if pred == 'never':
        return False
    raise ValueError(pred)


def make_op(pred, k):
    """A conforming soft-fork op: NOP prologue, then may only raise."""
    def op(tape, stack, cache):
        count = F.bytes_to_int(tape.read(1))
        if count < 0:
            raise ScriptExecutionError('count must not be negative')
        items = [stack.get() for _ in range(count)]
        if not pred_holds(pred, k, items):
            raise ScriptExecutionError('soft fork predicate failed')
    return op


# ---------------------------------------------------------------- node process

class Node:
    """A validator: forked from the pristine worker image; commands over pipes."""

    def __init__(self):
        c2p_r, c2p_w = os.pipe()
        p2c_r, p2c_w = os.pipe()
        pid = os.fork()
        if pid == 0:
            try:
                os.close(c2p_r)
                os.close(p2c_w)
                _node_main(p2c_r, c2p_w)
            finally:
                os._exit(0)
        os.close(c2p_w)
        os.close(p2c_r)
        self.pid = pid
        self.r = os.fdopen(c2p_r, 'rb')
        self.w = os.fdopen(p2c_w, 'wb')

    def call(self, *cmd):
        data = pickle.dumps(cmd)
        self.w.write(struct.pack('!I', len(data)) + data)
        self.w.flush()
        hdr = self.r.read(4)
        if len(hdr) < 4:
            raise HarnessError('node process died on %r' % (cmd[:1],))
        n = struct.unpack('!I', hdr)[0]
        return pickle.loads(self.r.read(n))

    def kill(self):
        try:
            self.w.close()
        except LIB_ERRORS:
            pass
        try:
            self.r.close()
        except LIB_ERRORS:
            pass
        try:
            os.kill(self.pid, 9)
        except ProcessLookupError:
            pass
        try:
            os.waitpid(self.pid, 0)
        except ChildProcessError:
            pass


def _outcome(fn):
    try:
        return ['ok', fn()]
    except ScriptExecutionError:
        return ['exc', 'ScriptExecutionError']
    except BaseException as e:      # noqa
        return ['exc', type(e).__name__]


def _node_main(rfd, wfd):
    r = os.fdopen(rfd, 'rb')
    w = os.fdopen(wfd, 'wb')
    while True:
        hdr = r.read(4)
        if len(hdr) < 4:
            return
        cmd = pickle.loads(r.read(struct.unpack('!I', hdr)[0]))
        k = cmd[0]
        if k == 'activate':
            _, code, name, aliases, pred, kk = cmd
            if aliases:
                res = _outcome(lambda: T.add_soft_fork(code, name, make_op(pred, kk), list(aliases)))
            else:
                # no aliases: the argument is simply left out, as callers do (every such
                # activation on this node then shares the function's default)
                res = _outcome(lambda: T.add_soft_fork(code, name, make_op(pred, kk)))
        elif k == 'activate_bad':
            _, how, code, name = cmd
            if how == 'not_callable':
                res = _outcome(lambda: T.add_soft_fork(code, name, 'nope', []))
            else:
                res = _outcome(lambda: T.add_soft_fork(code, name, make_op('always', 0), []))
        elif k == 'auth':
            try:
                res = ['ok', F.run_auth_scripts(cmd[1], cmd[2])]
            except BaseException as e:      # noqa
                res = ['exc', type(e).__name__]
        elif k == 'run':
            def _r():
                _, stack, cache = F.run_script(cmd[1], cmd[2])
                return [stack.list(), sorted(str(x) for x in cache)]
            res = _outcome(_r)
        elif k == 'compile':
            res = _outcome(lambda: T.compile_script(cmd[1]))
        elif k == 'decompile':
            res = _outcome(lambda: P.decompile_script(cmd[1]))
        else:
            res = ['exc', 'unknown command']
        data = pickle.dumps(res)
        w.write(struct.pack('!I', len(data)) + data)
        w.flush()


# ---------------------------------------------------------------- generation

def _items_for(rng, pred, k, n, satisfy):
    """n items (bottom->top order as pushed; the op pops top first) that
    satisfy / violate the predicate when all n are popped"""
    if n == 0:
        return []
    base = [rng.bytes(rng.choice([1, 2, 8])) for _ in range(n)]
    if pred == 'all_equal':
        if satisfy or n < 2:
            return [base[0]] * n
        base[rng.below(n - 1)] = base[-1] + b'\x01'
        return base
    if pred == 'all_distinct':
        uniq = [bytes([i]) + b for i, b in enumerate(base)]
        if satisfy or n < 2:
            return uniq
        uniq[0] = uniq[-1]
        return uniq
    if pred == 'none_empty':
        if satisfy:
            return base
        # empty items cannot be pushed by PUSH0; use size-0 OP_PUSH1 marker
        base[rng.below(n)] = b''
        return base
    if pred == 'total_len_le':
        if satisfy:
            return [b'\x01'] * n if n <= k else base
        return [rng.bytes(k + 1)] + base[1:]
    if pred == 'first_is_sha_of_second':
        if n < 2:
            return base
        if satisfy:
            base[-1] = sha256(base[-2])
        return base
    return base


def _push_src(item):
    if item == b'':
        return 'push1 d0 x'     # replaced below: an empty item via OP_PUSH1 size 0
    return 'push x' + item.hex()


def push_bytes(item):
    """bytecode pushing one item (OP_PUSH1 handles the empty item too)"""
    op1 = F.opcodes_inverse['OP_PUSH1'][0]
    return bytes([op1, len(item)]) + item


class Prog:
    """Generates a well-formed program with tracked stack depth, containing
    fork sites (spelled as raw bytes <code><count>) at top level and nested."""

    def __init__(self, rng, forks, maxdepth):
        self.rng = rng
        self.forks = forks
        self.maxdepth = maxdepth
        self.try_wrapped = False
        self.max_nest = 0
        self.sites = 0
        self.ndefs = 0
        self.nests = []

    def simple(self, depth):
        """one ordinary op as (bytes, new_depth)"""
        rng = self.rng
        c = T.compile_script
        ops = [('push d%d' % rng.rng(-100, 1000), 0, 1), ('push x' + rng.bytes(rng.rng(1, 12)).hex(), 0, 1),
               ('true', 0, 1), ('false', 0, 1), ('depth', 0, 1),
               ('dup', 1, 1), ('sha256', 1, 0), ('not', 1, 0), ('shake256 d%d' % rng.rng(1, 40), 1, 0),
               ('pop0', 1, -1), ('swap2', 2, 0), ('equal', 2, -1), ('concat', 2, -1),
               ('xor', 2, -1), ('and', 2, -1), ('or', 2, -1), ('add_ints d2', 2, -1),
               ('push d3 push d4 less', 0, 1), ('size', 1, 1), ('reverse d2', 2, 0)]
        cand = [o for o in ops if o[1] <= depth]
        src, _, eff = rng.choice(cand)
        if src == 'size':
            # OP_SIZE: effect measured once on the pristine VM
            eff = SIZE_EFFECT
        return c(src), depth + eff

    def site(self, depth):
        rng = self.rng
        f = rng.choice(self.forks)
        self.sites += 1
        m = rng.rng(0, 4)
        satisfy = rng.chance(2, 3)
        mode = rng.weighted([(12, 'eq'), (3, 'less'), (2, 'deeper'), (1, 'too_many'), (1, 'negative')])
        if mode == 'eq':
            count = m
        elif mode == 'less':
            count = rng.rng(0, m)
        elif mode == 'deeper':
            count = min(m + rng.rng(1, 2), depth + m)
        elif mode == 'too_many':
            count = depth + m + rng.rng(1, 3)
        else:
            count = rng.rng(128, 255)
        if f['pred'] == 'count_eq' and satisfy and mode == 'eq':
            m = count = f['k']
        items = _items_for(rng, f['pred'], f['k'], m, satisfy)
        code = b''.join(push_bytes(i) for i in items) + bytes([f['code'], count & 0xff])
        if count > 127 or count > depth + m:
            return code, None          # certain error on every VM
        return code, depth + m - count

    def block(self, depth, nest, n):
        """n statements; returns (bytes, depth) or (bytes, None) if it surely errors"""
        out = b''
        for _ in range(n):
            if depth is None:
                break
            r = self.rng.below(100)
            if r < 25:
                b, depth = self.site(depth)
                self.max_nest = max(self.max_nest, nest)
            elif r < 45 and nest < self.maxdepth:
                b, depth = self.nested(depth, nest)
            else:
                b, depth = self.simple(depth)
            out += b
        return out, depth

    def nested(self, depth, nest):
        rng = self.rng
        c = T.compile_script
        kind = rng.choice(['if', 'if_skip', 'ifelse_t', 'ifelse_f', 'defcall', 'eval', 'loop', 'try',
                           'except'])
        self.nests.append(kind)
        if kind == 'try':
            before = self.sites
            body, d2 = self.block(depth, nest + 1, rng.rng(1, 3))
            if self.sites > before:
                self.try_wrapped = True
            exc = c('true pop0')
            opt = F.opcodes_inverse['OP_TRY_EXCEPT'][0]
            code = bytes([opt]) + len(body).to_bytes(2, 'big') + body + \
                len(exc).to_bytes(2, 'big') + exc
            # a failing body is swallowed: depth unknown afterwards -> treat as error-prone
            return code, d2
        if kind == 'except':
            # the fallback path: the TRY clause fails, the EXCEPT clause runs; an op
            # there is NOT wrapped in the TRY block, so an error in it must count
            body, d2 = self.block(depth, nest + 1, rng.rng(1, 3))
            tr = c('false verify')
            opt = F.opcodes_inverse['OP_TRY_EXCEPT'][0]
            code = bytes([opt]) + len(tr).to_bytes(2, 'big') + tr + \
                len(body).to_bytes(2, 'big') + body
            return code, d2
        if kind in ('if', 'if_skip'):
            body, d2 = self.block(depth, nest + 1, rng.rng(1, 3))
            opi = F.opcodes_inverse['OP_IF'][0]
            cond = c('true' if kind == 'if' else 'false')
            code = cond + bytes([opi]) + len(body).to_bytes(2, 'big') + body
            return code, (d2 if kind == 'if' else depth)
        if kind in ('ifelse_t', 'ifelse_f'):
            a, da = self.block(depth, nest + 1, rng.rng(1, 2))
            b, db = self.block(depth, nest + 1, rng.rng(1, 2))
            opi = F.opcodes_inverse['OP_IF_ELSE'][0]
            cond = c('true' if kind == 'ifelse_t' else 'false')
            code = cond + bytes([opi]) + len(a).to_bytes(2, 'big') + a + \
                len(b).to_bytes(2, 'big') + b
            return code, (da if kind == 'ifelse_t' else db)
        if kind == 'defcall':
            body, d2 = self.block(depth, nest + 1, rng.rng(1, 3))
            n = self.ndefs
            self.ndefs += 1
            opd = F.opcodes_inverse['OP_DEF'][0]
            opc = F.opcodes_inverse['OP_CALL'][0]
            code = bytes([opd, n]) + len(body).to_bytes(2, 'big') + body + bytes([opc, n])
            return code, d2
        if kind == 'eval':
            body, d2 = self.block(depth, nest + 1, rng.rng(1, 3))
            if not body or len(body) > 250:
                return b'', depth
            code = push_bytes(body) + c('eval')
            return code, d2
        # loop: `true loop { BODY false }` runs the body once, leaves true..false
        body, d2 = self.block(depth + 1, nest + 1, rng.rng(1, 2))
        body += c('false')
        opl = F.opcodes_inverse['OP_LOOP'][0]
        code = c('true') + bytes([opl]) + len(body).to_bytes(2, 'big') + body
        return code, (d2 + 1 if d2 is not None else None)


SIZE_EFFECT = None


def _measure():
    global SIZE_EFFECT
    if SIZE_EFFECT is None:
        _, st, _ = F.run_script(T.compile_script('push x0102 size'))
        SIZE_EFFECT = len(st.list()) - 1


def gen_program(rng, forks, maxdepth=3):
    _measure()
    g = Prog(rng, forks, maxdepth)
    body, depth = g.block(0, 0, rng.rng(3, 9))
    if g.sites == 0:
        b, depth2 = g.site(depth if depth is not None else 0)
        body += b
        depth = depth2 if depth is not None else None
    tail = b''
    if depth is not None:
        tail = T.compile_script('pop0') * depth + T.compile_script('true')
    tx = {'kind': 'program', 'code': (body + tail).hex(), 'try_wrapped': g.try_wrapped,
          'nest': g.max_nest, 'sure_error': depth is None, 'nests': sorted(set(g.nests))}
    if rng.chance(1, 6) and len(body + tail) < 900:
        # the program becomes one committed branch of a merklized script: the
        # forked code then runs inside OP_MERKLEVAL (real tree builder)
        leaves = [T.Script('# generated #', body + tail), T.Script('false', T.compile_script('false')),
                  T.Script('# other #', T.compile_script('push d%d pop0 true' % rng.below(100)))]
        which = rng.below(3)
        leaves[0], leaves[which] = leaves[which], leaves[0]
        lock, wits = T.make_merklized_script_prioritized(leaves)
        tx['scripts'] = [wits[which].bytes.hex(), lock.bytes.hex()]
        tx['nests'] = sorted(set(g.nests) | {'merkleval'})
        tx['nest'] = g.max_nest + 1
    return tx


def gen_plan(run_seed, idx, tier):
    rng = Rng(run_seed)
    nforks = rng.rng(1, 3)
    forks = []
    base = idx % len(CODES)
    for j in range(nforks):
        code = CODES[(base + j * 53) % len(CODES)]
        style = rng.choice(['upper', 'upper', 'lower', 'mixed'])
        nm = 'OP_FORK%d' % code
        nm = nm.lower() if style == 'lower' else ('Op_Fork%d' % code if style == 'mixed' else nm)
        als = []
        for a in range(rng.rng(0, 2)):
            al = 'FK%dA%d' % (code, a)
            als.append(al.lower() if rng.chance(1, 3) else al)
        forks.append({'code': code, 'name': nm, 'aliases': als,
                      'pred': rng.choice(PREDS), 'k': rng.rng(1, 4)})
    if nforks >= 2 and idx % 3 == 1:
        # an alias is handed over: whichever fork was activated last on a node owns it
        for f in forks[:2]:
            f['aliases'] = f['aliases'] + ['FKSHARED' if idx % 2 else 'fkshared']
    nnodes = rng.rng(2, 4)
    nodes = ['N%d' % i for i in range(nnodes)]
    fault_free = (idx % 4 == 3)
    txs = {}
    ntx = rng.rng(25, 60)
    for i in range(ntx):
        kind = rng.weighted([(4, 'nop_probe'), (5, 'fork_tx'), (7, 'program'), (2, 'spelling')])
        if i == 0:
            kind = ['nop_probe', 'fork_tx', 'program', 'spelling'][(idx // len(CODES)) % 4]
        if kind == 'nop_probe':
            d = rng.choice([0, 1, 2, 3, 3, 127, 128, 129, 255, 256])
            code = rng.choice([f['code'] for f in forks] + [CODES[(base + 7 * i) % len(CODES)]])
            count = rng.choice([0, 1, d, d, max(d - 1, 0), (d + 1) & 0xff, 127, 128, 255, rng.below(256)])
            txs['t%d' % i] = {'kind': kind, 'code': code, 'count': count & 0xff, 'depth': d,
                              'nest': rng.choice(NOP_NESTS)}
        elif kind == 'fork_tx':
            f = rng.choice(forks)
            m = rng.rng(0, 5)
            extra = rng.rng(0, 3)
            sat = rng.chance(1, 2)
            count = rng.choice([m, m, m, m + extra, m + extra + 1, 128, 200, max(m - 1, 0)])
            if f['pred'] == 'count_eq' and sat:
                m = count = f['k']
            items = _items_for(rng, f['pred'], f['k'], m, sat)
            under = [rng.bytes(rng.rng(1, 4)) for _ in range(extra)]
            txs['t%d' % i] = {'kind': kind, 'fork': forks.index(f), 'count': count & 0xff,
                              'items': [x.hex() for x in under + items]}
        elif kind == 'program':
            txs['t%d' % i] = gen_program(rng, forks)
        else:
            f = rng.choice(forks)
            txs['t%d' % i] = {'kind': 'spelling', 'fork': forks.index(f),
                              'count': rng.choice([0, 1, 2, 10, 127, 128, 171, 255, rng.below(256)]),
                              'how': rng.choice(['d', 'x', 'X'])}
    steps = []
    horizon = 1000
    for n in nodes:
        for j, f in enumerate(forks):
            r = rng.below(10)
            if r < 7:
                steps.append({'at': rng.below(horizon), 'node': n, 'kind': 'activate', 'fork': j})
            if r == 7 or rng.chance(1, 8):
                steps.append({'at': rng.below(horizon), 'node': n, 'kind': 'activate_bad',
                              'how': rng.choice(['taken_code', 'bad_name', 'not_callable', 'again']),
                              'fork': j})
        if not fault_free and rng.chance(1, 4):
            steps.append({'at': rng.below(horizon), 'node': n, 'kind': 'restart',
                          'reapply': rng.chance(1, 2)})
    for i, tid in enumerate(sorted(txs, key=lambda s: int(s[1:]))):
        sent = (i * horizon) // max(len(txs), 1)
        for n in nodes:
            delay = 0 if fault_free else rng.choice([0, 0, 1, 5, 50, 300, 900])
            steps.append({'at': sent + delay, 'node': n, 'kind': 'deliver', 'tx': tid})
            if not fault_free and rng.chance(1, 6):
                steps.append({'at': sent + delay + rng.choice([1, 100, 600, 1200]), 'node': n,
                              'kind': 'deliver', 'tx': tid, 'dup': True})
    steps.sort(key=lambda s: (s['at'], s['node'], s['kind'], s.get('tx', ''), s.get('fork', 0)))
    return {'property': PID, 'run_seed': run_seed, 'idx': idx,
            'knobs': {'fault_free': fault_free}, 'forks': forks, 'nodes': nodes,
            'txs': txs, 'steps': steps}


# ------------------------------------------------------------------ execute

def tx_scripts(tx, forks):
    """(list of script bytes, cache) for a transaction"""
    k = tx['kind']
    if k == 'nop_probe':
        code = b''.join(push_bytes(bytes([i & 0xff, 7])) for i in range(tx['depth']))
        code += wrap_op(bytes([tx['code'], tx['count']]), tx.get('nest', 'top'))
        return [code], {}
    if k == 'fork_tx':
        f = forks[tx['fork']]
        items = [bytes.fromhex(x) for x in tx['items']]
        w = b''.join(push_bytes(i) for i in items)
        cnt = tx['count']
        rest = len(items) - cnt
        lock = bytes([f['code'], cnt]) + T.compile_script(
            'depth push d%d equal_verify %s true' % (max(rest, 0), 'pop0 ' * max(rest, 0)))
        return [w, lock], {}
    if k == 'program':
        if 'scripts' in tx:
            return [bytes.fromhex(x) for x in tx['scripts']], {}
        return [bytes.fromhex(tx['code'])], {}
    raise ValueError(k)


def wrap_op(op, nest):
    """the two bytes <code><count> inside a nesting context in which they are
    executed exactly once and in which an error must still fail the script (so:
    not the TRY clause)"""
    c = T.compile_script
    o = F.opcodes_inverse
    n2 = len(op).to_bytes(2, 'big')
    if nest == 'top':
        return op
    if nest == 'if':
        return c('true') + bytes([o['OP_IF'][0]]) + n2 + op
    if nest == 'else':
        a = c('true pop0')
        return c('false') + bytes([o['OP_IF_ELSE'][0]]) + len(a).to_bytes(2, 'big') + a + n2 + op
    if nest == 'except':
        tr = c('false verify')
        return bytes([o['OP_TRY_EXCEPT'][0]]) + len(tr).to_bytes(2, 'big') + tr + n2 + op
    if nest == 'call':
        return bytes([o['OP_DEF'][0], 0]) + n2 + op + bytes([o['OP_CALL'][0], 0])
    if nest == 'eval':
        return push_bytes(op) + c('eval')
    raise ValueError(nest)


NOP_NESTS = ['top', 'top', 'top', 'if', 'else', 'except', 'call', 'eval']


def expected_fork_tx(tx, forks, active):
    f = forks[tx['fork']]
    items = [bytes.fromhex(x) for x in tx['items']]
    cnt = tx['count']
    if cnt > 127 or cnt > len(items):
        return False
    if tx['fork'] in active:
        popped = list(reversed(items))[:cnt]
        return pred_holds(f['pred'], f['k'], popped)
    return True


def execute(plan, run):
    reset_world(plan['run_seed'])
    forks = plan['forks']
    nodes = {}
    active = {}            # node -> set of fork indices
    deliveries = {}        # tx -> list of (node, frozenset(active), verdict, step index)
    try:
        owner = {}         # node -> {ALIAS: index of the fork activated last with it}
        for n in plan['nodes']:
            nodes[n] = Node()
            active[n] = set()
            owner[n] = {}

        def owned(n, j):
            return [a for a in forks[j]['aliases'] if owner[n].get(a.upper()) == j]
        seen_sets = set()
        for i, st in enumerate(plan['steps']):
            n = st['node']
            if n not in nodes:
                continue
            node = nodes[n]
            k = st['kind']
            run.sched.append([k, n, st.get('tx', st.get('fork', ''))])
            if k == 'activate':
                f = forks[st['fork']]
                if st['fork'] in active[n]:
                    continue
                before = probe_names(node, f)
                r = node.call('activate', f['code'], f['name'], f['aliases'], f['pred'], f['k'])
                run.check('activation_succeeds', r[0] == 'ok',
                          'C20/add_soft_fork/valid_activation_raised', step=i,
                          detail={'fork': f, 'got': r})
                if r[0] != 'ok':
                    continue
                active[n].add(st['fork'])
                for a in f['aliases']:
                    if owner[n].get(a.upper(), st['fork']) != st['fork']:
                        run.probe('alias_handed_over')
                    owner[n][a.upper()] = st['fork']
                run.cells.add('forkcode|%d' % f['code'])
                if f['name'] != f['name'].upper():
                    run.probe('name_lowercase')
                if any(a != a.upper() for a in f['aliases']):
                    run.probe('alias_lowercase')
                # F3 reachability + F2 one bytecode, right after activation
                check_spellings(run, node, f, 3, 'd', i, legacy=before, aliases=owned(n, st['fork']))
                run.ev('activate', i, n, f['code'], r[0])
            elif k == 'activate_bad':
                f = forks[st['fork']]
                how = st['how']
                before = node_fingerprint(node, forks)
                if how == 'taken_code':
                    r = node.call('activate_bad', how, 5, 'OP_BADFORK')
                elif how == 'bad_name':
                    r = node.call('activate_bad', how, f['code'], 'FORK_WITHOUT_PREFIX')
                elif how == 'not_callable':
                    r = node.call('activate_bad', how, f['code'], f['name'])
                else:
                    if st['fork'] not in active[n]:
                        continue
                    r = node.call('activate', f['code'], f['name'], f['aliases'], f['pred'], f['k'])
                after = node_fingerprint(node, forks)
                run.probe('failed_activation')
                run.fault('invalid_activation')
                run.check('failed_activation_raises', r[0] == 'exc',
                          'C20/add_soft_fork/invalid_activation_accepted/' + how, step=i,
                          detail={'how': how, 'got': r})
                run.check('failed_activation_changes_nothing', before == after,
                          'C20/add_soft_fork/failed_activation_changed_node/' + how, step=i,
                          detail={'how': how, 'before': before, 'after': after})
                run.ev('activate_bad', i, n, how, r[0])
            elif k == 'restart':
                node.kill()
                nodes[n] = node = Node()
                old = sorted(active[n])
                active[n] = set()
                owner[n] = {}
                run.probe('node_restart')
                run.fault('crash_restart')
                if st.get('reapply'):
                    for j in old:
                        f = forks[j]
                        r = node.call('activate', f['code'], f['name'], f['aliases'], f['pred'], f['k'])
                        if r[0] == 'ok':
                            active[n].add(j)
                            for a in f['aliases']:
                                owner[n][a.upper()] = j
                run.ev('restart', i, n, sorted(active[n]))
            elif k == 'deliver':
                tx = plan['txs'].get(st['tx'])
                if tx is None:
                    continue
                if st.get('dup'):
                    run.fault('duplicate_delivery')
                aset = frozenset(active[n])
                seen_sets.add((n, aset))
                if tx['kind'] == 'spelling':
                    f = forks[tx['fork']]
                    if tx['fork'] in aset:
                        check_spellings(run, node, f, tx['count'], tx['how'], i,
                                        aliases=owned(n, tx['fork']))
                    else:
                        check_legacy_spelling(run, node, f, tx['count'], i)
                    continue
                scripts, cache = tx_scripts(tx, forks)
                if tx['kind'] == 'nop_probe':
                    judge_nop(run, node, tx, forks, aset, scripts[0], i)
                    continue
                r = node.call('auth', scripts, cache)
                if r[0] != 'ok' or not isinstance(r[1], bool):
                    run.aux_auth_raised += 1
                verdict = r[0] == 'ok' and r[1] is True
                if tx['kind'] == 'fork_tx':
                    want = expected_fork_tx(tx, forks, aset)
                    f = forks[tx['fork']]
                    run.check('fork_tx_exact', verdict == want,
                              'C20/fork_tx/%s/%s_node/%s' % (
                                  'accepted' if verdict else 'rejected',
                                  'upgraded' if tx['fork'] in aset else 'legacy',
                                  'count_gt_depth' if tx['count'] > len(tx['items']) else
                                  'count_negative' if tx['count'] > 127 else 'count_ok'),
                              step=i, detail={'tx': tx, 'active': sorted(aset), 'fork': f})
                    if tx['count'] > 127:
                        run.probe('count_negative')
                    elif tx['count'] > len(tx['items']):
                        run.probe('count_gt_depth')
                    elif tx['count'] == len(tx['items']):
                        run.probe('count_eq_depth')
                else:
                    if tx['nest'] >= 3:
                        run.probe('nested_depth_3')
                    if verdict and aset:
                        run.probe('program_accepted_upgraded')
                        if 'scripts' in tx:
                            run.probe('merkleval_program_accepted_upgraded')
                deliveries.setdefault(st['tx'], []).append((n, aset, verdict, i))
                run.ev('deliver', i, n, st['tx'], sorted(aset), verdict)
                run.cell(tx['kind'], len(aset), tx.get('nest', 0),
                         ','.join(tx.get('nests', []))[:40], verdict)
        # F1 over the history: accept under S implies accept under every S' subset of S
        for tid, ds in deliveries.items():
            tx = plan['txs'][tid]
            if tx.get('try_wrapped'):
                run.probe('try_wrapped_exempt')
                continue
            by_node = {}
            for n, aset, v, i in ds:
                by_node.setdefault(n, set()).add(aset)
            if any(len(s) > 1 for s in by_node.values()):
                run.probe('delivered_before_and_after_activation')
            if len({a for _, a, _, _ in ds}) >= 3:
                run.probe('three_version_mix')
            for n1, s1, v1, i1 in ds:
                for n2, s2, v2, i2 in ds:
                    if s2 <= s1:
                        run.evals += 1
                        if s2 < s1 and v2 and not v1:
                            run.probe('upgraded_rejects_legacy_accepts')
                        if v1 and not v2:
                            run.violation(
                                'soft_fork_compatibility',
                                'C20/compatibility/accepted_with_forks_rejected_with_subset/%s/nest_%s' % (
                                    tx['kind'], ','.join(tx.get('nests', []))[:60] or 'top'),
                                step=i1, detail={'tx': tid, 'upgraded': [n1, sorted(s1)],
                                                 'legacy': [n2, sorted(s2)], 'code': tx.get('code', '')[:400]})
                    if s1 == s2 and v1 != v2:
                        run.violation('verdict_depends_only_on_registry',
                                      'C20/same_registry_different_verdict/%s' % tx['kind'],
                                      step=i1, detail={'tx': tid, 'a': [n1, i1, v1], 'b': [n2, i2, v2]})
    finally:
        for node in nodes.values():
            node.kill()
    run.fault_free = bool(plan['knobs'].get('fault_free'))
    run.sample = {'forks': plan['forks'], 'nodes': plan['nodes'],
                  'first_steps': plan['steps'][:6],
                  'first_tx': plan['txs'].get('t0')}
    run.sim_us = max([s['at'] for s in plan['steps']] or [0]) * 1000


def judge_nop(run, node, tx, forks, aset, code, i):
    """N1: on a node where that code is not forked, `<code> <count>` removes
    exactly count items or errors, and changes nothing else."""
    forked = [j for j in aset if forks[j]['code'] == tx['code']]
    d, cnt = tx['depth'], tx['count']
    r = node.call('run', code, {'timestamp': 1})
    pushes = b''.join(push_bytes(bytes([j & 0xff, 7])) for j in range(tx['depth']))
    base = node.call('run', pushes, {'timestamp': 1})
    if tx.get('nest', 'top') != 'top':
        run.probe('nop_probe_nested')
        if r[0] == 'ok' and base[0] == 'ok':
            # cache keys a nesting op may legitimately add (e.g. b'E' after a failed
            # TRY clause) are not an effect of the NOP
            r = [r[0], [r[1][0], [k for k in r[1][1] if k in base[1][1]]]]
    if cnt > 127:
        run.probe('count_negative')
    elif cnt > d:
        run.probe('count_gt_depth')
    elif cnt == d:
        run.probe('count_eq_depth')
    if forked:
        f = forks[forked[0]]
        if cnt > 127 or cnt > d:
            want = ['exc']
        else:
            items = list(reversed(base[1][0]))[:cnt]
            want = ['ok'] if pred_holds(f['pred'], f['k'], items) else ['exc']
        ok = r[0] == want[0] and (r[0] != 'ok' or (r[1][0] == base[1][0][:d - cnt] and r[1][1] == base[1][1]))
        run.check('forked_code_semantics', ok,
                  'C20/forked_op/%s' % ('unexpected_error' if r[0] == 'exc' else 'unexpected_success_or_effect'),
                  step=i, detail={'tx': tx, 'got': r[0]})
        return
    if cnt > 127 or cnt > d:
        ok = r[0] == 'exc'
        what = 'negative_count_accepted' if cnt > 127 else 'count_beyond_stack_accepted'
    else:
        ok = r[0] == 'ok' and r[1][0] == base[1][0][:d - cnt] and r[1][1] == base[1][1]
        what = 'raised' if r[0] != 'ok' else 'wrong_items_removed_or_side_effect'
    run.check('nop_semantics', ok, 'C20/nop/%s' % what, step=i,
              detail={'tx': tx, 'got': r if r[0] == 'exc' else [len(r[1][0]), r[1][1]]})
    run.cell('nop', 'code%d' % (tx['code'] // 32), 'cnt' + ('neg' if cnt > 127 else 'gt' if cnt > d else 'eq' if cnt == d else 'lt'),
             'd%d' % d, r[0])


def probe_names(node, f):
    """what the node says about this code before activation"""
    return {'compile_nop': node.call('compile', 'NOP%d d3' % f['code'])}


def node_fingerprint(node, forks):
    out = []
    for f in forks:
        out.append(node.call('compile', 'NOP%d d1' % f['code']))
        out.append(node.call('compile', '%s d1' % f['name']))
        for a in f['aliases']:
            out.append(node.call('compile', '%s d1' % a))
        out.append(node.call('decompile', bytes([f['code'], 1])))
        out.append(node.call('run', push_bytes(b'\x01') + bytes([f['code'], 1]), {'timestamp': 1}))
    out.append(node.call('compile', 'true dup pop0'))
    out.append(node.call('decompile', bytes([5, 1])))
    return out


def check_spellings(run, node, f, count, how, i, legacy=None, aliases=None):
    """F2 / F3 on a node where fork f is active."""
    code = f['code']
    want = bytes([code, count])
    # (hex digits in either case; 'X' is only drawn for counts that have a letter digit)
    arg = ('d%d' % count) if how == 'd' else ('x%02X' % count) if how == 'X' else ('x%02x' % count)
    if how == 'X' and arg != arg[0] + arg[1:].lower():
        run.probe('count_in_upper_case_hex')
    aliases = list(f['aliases']) if aliases is None else aliases
    for sp in [f['name']] + aliases:
        r = node.call('compile', '%s %s' % (sp, arg))
        kind = 'name' if sp == f['name'] else 'alias'
        case = 'upper' if sp == sp.upper() else 'not_upper'
        run.check('fork_reachable_by_spelling', r == ['ok', want],
                  'C20/reachability/%s_%s_case/%s' % (
                      kind, case, 'does_not_compile' if r[0] == 'exc' else 'compiles_to_other_bytes'),
                  step=i, detail={'spelling': sp, 'arg': arg, 'got': [r[0], r[1].hex() if r[0] == 'ok' else r[1]],
                                  'want': want.hex(), 'fork': f})
    # ... and from inside every kind of block (expected bytes: what the pristine
    # compiler makes of the same source spelled with NOPn)
    for sp in [f['name']] + aliases:
        for ctx in SPELL_CONTEXTS:
            try:
                exp = T.compile_script(ctx % ('NOP%d x%02x' % (code, count)))
            except LIB_ERRORS:
                continue
            r = node.call('compile', ctx % ('%s %s' % (sp, arg)))
            kind = 'name' if sp == f['name'] else 'alias'
            if not run.check('fork_reachable_inside_blocks', r == ['ok', exp],
                             'C20/reachability/%s_inside_block/%s' % (
                                 kind, 'does_not_compile' if r[0] == 'exc' else 'compiles_to_other_bytes'),
                             step=i, detail={'source': ctx % ('%s %s' % (sp, arg)),
                                             'got': [r[0], r[1].hex() if r[0] == 'ok' else r[1]],
                                             'want': exp.hex(), 'fork': f}):
                break
    # ... and right after the short forms of the push instructions, whose parser looks
    # ahead for the next op name (expected bytes: the parts compiled on their own)
    for sp in [f['name']] + aliases[:1]:
        linear_contexts(run, node, sp, arg, want, i, 'upgraded')
    # the upgraded node decompiles the bytes to the new name, and the listing recompiles
    r = node.call('decompile', want)
    ok = r[0] == 'ok' and len(r[1]) == 1 and r[1][0].split()[0] == f['name'].upper()
    run.check('fork_decompiles_as_new_name', ok,
              'C20/one_bytecode/upgraded_decompile/%s' % ('raised' if r[0] == 'exc' else 'wrong_mnemonic'),
              step=i, detail={'got': r, 'fork': f})
    if ok and count <= 127:
        r2 = node.call('compile', '\n'.join(r[1]))
        run.check('fork_listing_recompiles', r2 == ['ok', want],
                  'C20/one_bytecode/upgraded_listing_does_not_recompile', step=i,
                  detail={'listing': r[1], 'got': [r2[0], r2[1].hex() if r2[0] == 'ok' else r2[1]]})
    if legacy is not None and count <= 127:
        lg = legacy['compile_nop']
        run.check('legacy_and_upgraded_same_bytes', lg == ['ok', bytes([code, 3])] if count == 3 else True,
                  'C20/one_bytecode/legacy_nop_spelling_differs', step=i, detail={'got': lg})


LINEAR = [('op_push1 x01', ''), ('op_push2 x0102', ''), ('op_push0 x07', ''), ('push x01', 'pop0'),
          ('OP_PUSH1 d1 x07', 'true')]


def linear_contexts(run, node, spelled, arg, want, i, which):
    """`<prefix> <op> <arg> <suffix>` must compile to compile(prefix) + op bytes +
    compile(suffix): the op is recognised as an op after every form of push."""
    for pre, suf in LINEAR:
        # (the one-symbol forms look ahead, so the prefix is compiled with an op after it)
        a = node.call('compile', pre + ' true')
        b = node.call('compile', suf) if suf else ['ok', b'']
        if a[0] != 'ok' or b[0] != 'ok' or a[1][-1:] != b'\x01':
            continue
        a = ['ok', a[1][:-1]]
        r = node.call('compile', ' '.join(x for x in (pre, spelled, arg, suf) if x))
        if not run.check('op_recognised_after_a_push', r == ['ok', a[1] + want + b[1]],
                         'C20/one_bytecode/%s_after_short_push/%s' % (
                             which, 'does_not_compile' if r[0] == 'exc' else 'compiles_to_other_bytes'),
                         step=i, detail={'source': ' '.join(x for x in (pre, spelled, arg, suf) if x),
                                         'got': [r[0], r[1].hex() if r[0] == 'ok' else r[1]],
                                         'want': (a[1] + want + b[1]).hex()}):
            break


def check_legacy_spelling(run, node, f, count, i):
    """F2 on a node without fork f: NOPn spelling, decompile and recompile."""
    code = f['code']
    want = bytes([code, count])
    if count <= 127:
        r = node.call('compile', 'NOP%d d%d' % (code, count))
        run.check('legacy_compiles_nop', r == ['ok', want], 'C20/one_bytecode/legacy_compile_nop', step=i,
                  detail={'got': [r[0], r[1].hex() if r[0] == 'ok' else r[1]], 'want': want.hex()})
    r = node.call('compile', 'NOP%d x%02X' % (code, count))
    run.check('legacy_compiles_nop_hex', r == ['ok', want], 'C20/one_bytecode/legacy_compile_nop_hex_upper',
              step=i, detail={'got': [r[0], r[1].hex() if r[0] == 'ok' else r[1]], 'want': want.hex()})
    r = node.call('compile', 'NOP%d x%02x' % (code, count))
    run.check('legacy_compiles_nop_hex', r == ['ok', want], 'C20/one_bytecode/legacy_compile_nop_hex', step=i,
              detail={'got': [r[0], r[1].hex() if r[0] == 'ok' else r[1]], 'want': want.hex()})
    linear_contexts(run, node, 'NOP%d' % code, 'x%02x' % count, want, i, 'legacy')
    r = node.call('decompile', want)
    ok = r[0] == 'ok' and len(r[1]) == 1 and r[1][0].split()[0] == 'NOP%d' % code
    run.check('legacy_decompiles_as_nop', ok, 'C20/one_bytecode/legacy_decompile', step=i, detail={'got': r})
    if ok and count <= 127:
        r2 = node.call('compile', '\n'.join(r[1]))
        run.check('legacy_listing_recompiles', r2 == ['ok', want],
                  'C20/one_bytecode/legacy_listing_does_not_recompile', step=i, detail={'listing': r[1]})
    # the new name must not be known here
    r = node.call('compile', '%s d1' % f['name'])
    run.check('legacy_does_not_know_fork_name', r[0] == 'exc',
              'C20/legacy_node_knows_fork_name', step=i, detail={'got': r[0]})


def shrink(plan):
    p = plan
    used = {s.get('tx') for s in p['steps']}
    drop = [t for t in p['txs'] if t not in used]
    if drop:
        c = copy.deepcopy(p)
        for t in drop:
            del c['txs'][t]
        yield c
    for n in p['nodes']:
        if len(p['nodes']) > 1:
            c = copy.deepcopy(p)
            c['nodes'] = [x for x in p['nodes'] if x != n]
            c['steps'] = [s for s in p['steps'] if s['node'] != n]
            yield c
    for j, f in enumerate(p['forks']):
        if f['aliases']:
            c = copy.deepcopy(p)
            c['forks'][j]['aliases'] = f['aliases'][:-1]
            yield c
