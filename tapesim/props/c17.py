"""C17 -- adapter signatures are verifiable encryptions of a valid signature.
A two-party exchange over a hostile channel.  DESIGN.md section 3.4."""
import copy

import nacl.bindings as nb

from ..prng import Rng
from ..seams import F, T, reset_world
from ..seams import LIB_ERRORS
from ..core import real
from ..oracle import caching_flags_off
from ..oracle import (L, ed_verify, sig_message, base_mult, point_add, pubkey_of_seed,
                      scalar_to_int, int_to_scalar, as_key_arg, PREFIXES,
                      LOCK_FORMS, LIMITS, in_form, ARG_STYLES, styled_flags, malleate, pick_bit,
                      styled_sigfields, maybe_twice)

PID = 'C17'
ISOLATE = True      # one forked process per run: nothing a run does to process-global
                    # state can reach another run, so every run replays on its own
RUNS = {'quick': 30000, 'thorough': 500000}
STEP_KEYS = ['steps']
BATCH = 16           # runs per forked process (see core.execute_seq)
COMPONENTS = {
    'real': ['OP_MAKE_ADAPTER_SIG_PUBLIC', 'OP_MAKE_ADAPTER_SIG_PRIVATE', 'OP_CHECK_ADAPTER_SIG',
             'OP_DECRYPT_ADAPTER_SIG', 'make_adapter_locks_pub', 'make_adapter_locks_prv',
             'make_adapter_lock_pub', 'make_adapter_lock_prv', 'make_adapter_witness',
             'make_adapter_decrypt', 'decrypt_adapter', 'make_single_sig_lock',
             'run_script', 'run_auth_scripts', 'clamp_scalar', 'OP_GET_MESSAGE', 'OP_CHECK_SIG'],
    'stub': ['signer A, counterparty B, man-in-the-middle M, validator V',
             'channel (corrupt / drop / duplicate / misroute / splice)', 'B crash + restart',
             'ledger of published signatures'],
}
RULE = ('each run = 2-4 adapter exchanges (signer A, counterparty B choosing t, '
        'man-in-the-middle M, validator V) in one of five protocol variants, with '
        'single-bit corruption of sa / R / T / X / m, dropped / duplicated / misrouted '
        'adapters, spliced adapters, wrong-scalar decryptions, adapter-as-signature '
        'and crash of B between decrypting and publishing; first exchange of run i '
        'is forced into cell i mod %d (variant x tweak class x corruption field x '
        'sigflags); non-trivial = every oracle comparison; distinct = distinct tuples '
        '(variant, action, tweak class, corruption field / bit class, flags, outcome)')
VARIANTS = ['two_script', 'three_script', 'deprecated', 'raw_public', 'raw_private']
TWEAKS = ['random', 'clamped', 'bit255', 'one', 'Lm1', 'Lp1']
CORR = ['none', 'sa', 'R', 'T', 'X', 'm', 'sa_bit255']
FLAGS = ['00', '01', '02', '03', '80', 'a4']
N_CELLS = len(VARIANTS) * len(TWEAKS) * len(CORR) * len(FLAGS)
REQUIRED_PROBES = ['corrupt_sa', 'corrupt_R', 'corrupt_T', 'corrupt_X', 'corrupt_m',
                   'sa_bit255', 'edge_scalar_one', 'edge_scalar_Lm1', 'edge_scalar_Lp1',
                   'edge_scalar_bit255', 'msg_len_0', 'msg_len_512', 'builder_msg_len_0', 'builder_msg_len_512', 'adapter_as_sig',
                   'wrong_scalar_decrypt', 'crash_between_decrypt_and_publish',
                   'splice', 'misroute', 'honest_spend_accepted', 'extract',
                   'check_after_unrelated_derive', 'two_adapters_in_one_execution',
                   'neutral_tweak_point_offered', 'signature_extension_configured_by_prefix',
                   'negated_adapter_scalar', 'negated_nonce_point',
                   'tweak_point_equals_nonce_point', 'tweak_point_equals_signer_key'] + \
    ['variant_' + v for v in VARIANTS]


def ext_fields(sf, extflags):
    """what the signature-extension plugin below makes of the sigfields: the
    fields selected by the extension flags are replaced by their SHA-256"""
    import hashlib
    out = {}
    for k, v in sf.items():
        i = int(k[8:])
        out[k] = hashlib.sha256(v).digest() if (extflags >> (i - 1)) & 1 else v
    return out


def ext_plugin(tape, stack, cache):
    """a signature extension in the style of the repository's own example
    (tests/test_e2e_extensions.py): configured per execution through the cache
    location b'sigext' (`@= sigext [ x02 ]`), idempotent across the several calls
    one execution makes"""
    import hashlib
    flags = cache.get(b'sigext', [b'\x00'])[0]
    flags = int.from_bytes(flags, 'big')
    if 'sigfield_backup' not in cache:
        cache['sigfield_backup'] = {k: cache[k] for k in list(cache)
                                    if isinstance(k, str) and k.startswith('sigfield') and
                                    k != 'sigfield_backup'}
    for k, v in cache['sigfield_backup'].items():
        i = int(k[8:])
        cache[k] = hashlib.sha256(v).digest() if (flags >> (i - 1)) & 1 else v


def decode_cell(i):
    i %= N_CELLS
    v = VARIANTS[i % 5]; i //= 5
    tw = TWEAKS[i % 6]; i //= 6
    co = CORR[i % 7]; i //= 7
    fl = FLAGS[i % len(FLAGS)]
    return v, tw, co, fl


def clamp255(b):
    return b[:31] + bytes([b[31] & 0x7f])


def tweak_bytes(rng, cls):
    if cls == 'random':
        return rng.bytes(32)
    if cls == 'clamped':
        b = bytearray(rng.bytes(32))
        b[0] &= 0xf8
        b[31] &= 0x7f
        b[31] |= 0x40
        return bytes(b)
    if cls == 'bit255':
        b = bytearray(rng.bytes(32))
        b[31] |= 0x80
        return bytes(b)
    if cls == 'one':
        return (1).to_bytes(32, 'little')
    if cls == 'Lm1':
        return (L - 1).to_bytes(32, 'little')
    return (L + 1).to_bytes(32, 'little')


def gen_exchange(rng, cell):
    v, tw, co, fl = cell
    ex = {'variant': v, 'tweak_class': tw, 'tweak': tweak_bytes(rng, tw).hex(),
          'keys': rng.choice(['bytes', 'bytes', 'object']), 'prefix': rng.choice(PREFIXES),
          'form': rng.choice(LOCK_FORMS), 'limits': rng.below(len(LIMITS)),
          'style': rng.choice(ARG_STYLES), 'twice': rng.chance(1, 4),
          # the tweak scalar happens to be (is chosen to be) the signer's own nonce for
          # this message, so that T == R: still a tweak scalar like any other
          'tweak_is_nonce': rng.chance(1, 10),
          # ... or the signer's own private scalar, so that T == X
          'tweak_is_key': rng.chance(1, 20),
          # one builder exchange in five runs under a signature-extension plugin that is
          # configured through the sign / witness script prefix
          'sigext': rng.choice([None, None, None, None, '01', '02', 'ff'])
          if v not in ('raw_public', 'raw_private') else None,
          'seed': rng.bytes(32).hex(), 'flags': fl if v not in ('raw_public', 'raw_private') else '00'}
    if v in ('raw_public', 'raw_private'):
        ex['m'] = rng.bytes(rng.choice([0, 1, 11, 32, 64, 255, 256, 512, rng.below(513)])).hex()
    else:
        sf = {}
        # messages of 0..512 bytes: empty fields (alone: the 0-byte message; or next to
        # others) and one long field are part of the range
        shape = rng.below(8)
        for k in rng.sample(range(1, 9), rng.rng(1, 3)):
            size = 0 if shape == 0 else rng.choice([0, 1, 8, 32, 170])
            sf['sigfield%d' % k] = rng.bytes(size).hex()
        if shape == 1:
            sf = {'sigfield%d' % rng.rng(1, 8): rng.bytes(rng.choice([511, 512])).hex()}
        ex['sigfields'] = sf
    return ex


def gen_steps(rng, eid, ex, co, others, fault_free):
    """a protocol run for one exchange with its faults, as a list of actions"""
    st = []

    def cor(field, bit=None):
        return {'kind': 'corrupt', 'field': field, 'bit': pick_bit(rng, 256) if bit is None else bit,
                # one time in five not a flipped bit but the negated scalar / point
                'negate': bit is None and rng.chance(1, 5)}
    fault_offer = None
    fault_adapt = None
    view = None
    if not fault_free:
        if co == 'T':
            if rng.chance(1, 2):
                fault_offer = cor('T')
            else:
                view = {'field': 'T', 'bit': pick_bit(rng, 256)}
        elif co in ('sa', 'R'):
            fault_adapt = cor(co)
        elif co == 'sa_bit255':
            fault_adapt = cor('sa', 255)
        elif co == 'X':
            view = {'field': 'X', 'bit': pick_bit(rng, 256)}
        elif co == 'm':
            view = {'field': 'm', 'bit': rng.below(4096)}
        elif rng.chance(1, 6):
            fault_offer = {'kind': rng.choice(['drop', 'dup'])}
        elif rng.chance(1, 6):
            fault_adapt = {'kind': rng.choice(['drop', 'dup'])}
    st.append({'ex': eid, 'act': 'offer', 'fault': fault_offer})
    if fault_offer and fault_offer['kind'] == 'drop':
        st.append({'ex': eid, 'act': 'offer', 'fault': None})
    st.append({'ex': eid, 'act': 'adapt', 'fault': fault_adapt})
    if fault_adapt and fault_adapt['kind'] == 'drop':
        st.append({'ex': eid, 'act': 'adapt', 'fault': None})
    if not fault_free and others and rng.chance(1, 5):
        st.append({'ex': eid, 'act': rng.choice(['splice', 'misroute']), 'with': rng.choice(others)})
    st.append({'ex': eid, 'act': 'check', 'view': view, 'prefix': rng.chance(1, 3)})
    # the adversary acts with what is public before t is revealed
    if not fault_free:
        for what in rng.sample(['adapter_as_sig', 'RT_with_sa', 'wrong_scalar'], rng.below(3)):
            st.append({'ex': eid, 'act': 'publish', 'who': 'M', 'what': what,
                       'scalar': rng.choice(['random', 't+1', 't-1', 'other'])})
    st.append({'ex': eid, 'act': 'decrypt'})
    if not fault_free and rng.chance(1, 4):
        st.append({'ex': eid, 'act': 'crash_B'})
        st.append({'ex': eid, 'act': 'decrypt'})
    st.append({'ex': eid, 'act': 'publish', 'who': 'B', 'what': rng.choice(['sig', 'sig', 'one_shot'])})
    st.append({'ex': eid, 'act': 'extract'})
    if not fault_free and rng.chance(1, 6):
        # a malicious counterparty proposes the NEUTRAL element as tweak point (t = 0):
        # an adapter for it would be a plain signature -- nothing encrypted
        st.append({'ex': eid, 'act': 'neutral_offer'})
    return st


def gen_plan(run_seed, idx, tier):
    rng = Rng(run_seed)
    fault_free = (idx % 4 == 3)
    n = rng.rng(2, 4)
    exchanges = {}
    cells = []
    for i in range(n):
        cell = decode_cell(idx) if i == 0 else decode_cell(rng.below(N_CELLS))
        cells.append(cell)
        exchanges['e%d' % i] = gen_exchange(rng, cell)
    per = []
    for i in range(n):
        eid = 'e%d' % i
        others = [e for e in exchanges if e != eid]
        per.append(gen_steps(rng, eid, exchanges[eid], cells[i][2], others, fault_free))
    # interleave the exchanges (protocol order kept within each)
    steps = []
    while any(per):
        live = [p for p in per if p]
        p = live[rng.below(len(live))] if not fault_free else live[0]
        steps.append(p.pop(0))
    if n >= 2 and rng.chance(1, 2):
        # a settlement that handles two adapters in ONE execution (e.g. both legs
        # of a swap): check both, then decrypt both
        a, b = rng.sample(sorted(exchanges), 2)
        steps.append({'ex': a, 'act': 'settle_pair', 'with': b,
                      'order': rng.choice(['ab', 'ba']), 'how': rng.choice(['script', 'auth'])})
    return {'property': PID, 'run_seed': run_seed, 'idx': idx,
            'knobs': {'fault_free': fault_free}, 'exchanges': exchanges, 'steps': steps}


# ------------------------------------------------------------------ helpers

def pb(item):
    """bytecode pushing one item of any size"""
    if len(item) < 256:
        return bytes([F.opcodes_inverse['OP_PUSH1'][0], len(item)]) + item
    return bytes([F.opcodes_inverse['OP_PUSH2'][0]]) + len(item).to_bytes(2, 'big') + item


def flip(b, bit):
    if len(b) == 0:
        return b'\x01'
    bit %= len(b) * 8
    a = bytearray(b)
    a[bit // 8] ^= 1 << (bit % 8)
    return bytes(a)


class Ex:
    """state of one exchange"""

    def __init__(self, eid, spec):
        self.eid = eid
        self.spec = spec
        self.v = spec['variant']
        self.seed = bytes.fromhex(spec['seed'])
        self.X = pubkey_of_seed(self.seed)
        self.t = bytes.fromhex(spec['tweak'])
        self.t_eff = scalar_to_int(clamp255(self.t)) % L
        self.T = base_mult(int_to_scalar(self.t_eff))
        self.flags = spec['flags']
        self.bflags = styled_flags(spec['flags'], spec.get('style', 'plain'))   # as spelled for builders
        self.ext = 0
        self.ext_src = ''
        self.ext_code = b''
        if 'm' in spec:
            self.m = bytes.fromhex(spec['m'])
            self.sf = None
        else:
            self.sf = {k: bytes.fromhex(v) for k, v in spec['sigfields'].items()}
            self.m = sig_message(self.sf, int(self.flags, 16))
            if spec.get('sigext'):
                self.ext = int(spec['sigext'], 16)
                self.ext_src = '@= sigext [ x%s ]' % spec['sigext']
                self.ext_code = T.compile_script(self.ext_src)
                self.m = sig_message(ext_fields(self.sf, self.ext), int(self.flags, 16))
        self.tweak_is_nonce = False
        self.tweak_is_key = False
        if spec.get('tweak_is_nonce'):
            # the library derives the nonce from (seed, message) alone and leaves it in
            # the cache (b'r') unless that caching flag is off
            try:
                G = base_mult(int_to_scalar(1))
                _, _, c0 = F.run_script(pb(self.seed) + pb(self.m) + pb(G) +
                                        T.compile_script('make_adapter_sig_public'))
                r = c0.get(b'r')
            except LIB_ERRORS:
                r = None
            if isinstance(r, bytes) and len(r) == 32 and scalar_to_int(clamp255(r)) % L:
                self.t = r
                self.t_eff = scalar_to_int(clamp255(r)) % L
                self.T = base_mult(int_to_scalar(self.t_eff))
                self.tweak_is_nonce = True
        if spec.get('tweak_is_key') and not self.tweak_is_nonce:
            try:
                _, st0, _ = F.run_script(pb(self.seed) + T.compile_script('derive_scalar'))
                x = st0.get()
            except LIB_ERRORS:
                x = None
            if isinstance(x, bytes) and len(x) == 32 and \
                    base_mult(int_to_scalar(scalar_to_int(clamp255(x)) % L)) == self.X:
                self.t = x
                self.t_eff = scalar_to_int(clamp255(x)) % L
                self.T = self.X
                self.tweak_is_key = True
        self.T_at_A = None
        self.sent = None            # (R, sa) as produced by A
        self.sent_for_T = None
        self.inbox = []             # adapters delivered to B: (R, sa)
        self.validated = None       # durable at B after a passed check: (R, sa, X_view, m_view/sf_view)
        self.sig = None             # volatile at B
        self.sig_before_crash = None
        self.published = None


def build_adapter(e, T_used):
    """A makes the adapter with the real code of the variant"""
    if e.v == 'raw_public':
        code = pb(e.seed) + pb(e.m) + pb(T_used) + T.compile_script('make_adapter_sig_public')
        _, st, _ = real('OP_MAKE_ADAPTER_SIG_PUBLIC', F.run_script, code)
        sa, R = st.get(), st.get()
        return R, sa
    if e.v == 'raw_private':
        # the PRIVATE op derives T from t itself; A is given t here (the op's contract)
        code = pb(e.m) + pb(e.t) + pb(e.seed) + T.compile_script('make_adapter_sig_private')
        _, st, _ = real('OP_MAKE_ADAPTER_SIG_PRIVATE', F.run_script, code)
        sa, R, T2 = st.get(), st.get(), st.get()
        e.T_from_private = T2
        return R, sa
    # (the builder may be called twice with the same objects; the sigfields dict in the
    # caller's insertion order)
    w = real('make_adapter_witness', maybe_twice, bool(e.spec.get('twice')), T.make_adapter_witness,
             as_key_arg('prv', e.seed, e.spec.get('keys', 'bytes')), T_used,
             styled_sigfields(e.sf, e.spec.get('style', 'plain')), e.bflags,
             (e.spec.get('prefix', '') + ' ' + e.ext_src).strip())
    _, st, _ = real('run_script(adapter witness)', F.run_script, w.bytes, dict(e.sf))
    R, sa = st.get(), st.get()
    return R, sa


def run_check(e, R, sa, Xv, Tv, mv, sfv, prefix=False):
    """B's check through the real code of the variant; True / False.  With
    `prefix`, B's script first derives an unrelated key pair of its own in the
    same execution (so the cache holds b'x' / b'X' of another key): the check
    must only depend on its five inputs."""
    w = e.ext_code + pb(sa) + pb(R)
    if prefix:
        w = pb(b'\x42' * 32) + T.compile_script('derive_scalar derive_point pop0') + w
    try:
        if e.v in ('raw_public', 'raw_private'):
            code = w + pb(mv) + pb(Tv) + pb(Xv) + T.compile_script('check_adapter_sig')
            _, st, _ = F.run_script(code)
            items = st.list()
            return items == [b'\xff']
        if e.v == 'two_script':
            s1, _ = T.make_adapter_locks_pub(as_key_arg('pub', Xv, e.spec.get('keys', 'bytes')),
                                             Tv, e.bflags)
        elif e.v == 'three_script':
            # B knows t; its view of T is what it derives -- unless its view is corrupted
            if Tv == e.T:
                s1, _, _ = T.make_adapter_locks_prv(Xv, e.t, e.bflags)
            else:
                s1, _ = T.make_adapter_locks_pub(Xv, Tv, e.bflags)
        else:
            # deprecated single lock: the check is the first half of the lock; use the
            # two-script check script for B's standalone validation
            s1, _ = T.make_adapter_locks_pub(Xv, Tv, e.bflags)
        return F.run_auth_scripts([w, _fm(e, s1)], dict(sfv), **_lim(e)) is True
    except LIB_ERRORS:
        return False


def _fm(e, script):
    """the lock in the form this exchange's parties keep it in (oracle.LOCK_FORMS)"""
    return in_form(script, e.spec.get('form', 'object'))


def _lim(e):
    return LIMITS[e.spec.get('limits', 0)]


def run_decrypt(e, R, sa, scalar):
    """decrypt through the real code of the variant; returns 64-byte sig or None"""
    w = pb(sa) + pb(R)
    try:
        if e.v in ('raw_public', 'raw_private'):
            code = w + pb(scalar) + T.compile_script('decrypt_adapter_sig')
            _, st, _ = F.run_script(code)
            s, RT = st.get(), st.get()
            return RT + s
        if e.v == 'three_script':
            s2 = T.make_adapter_decrypt(scalar)
            _, st, _ = F.run_script(w + s2.bytes)
            s, RT = st.get(), st.get()
            return RT + s
        return T.decrypt_adapter(w, scalar)
    except LIB_ERRORS:
        return None


def spend(e, sig, run):
    """V validates a 64-byte signature for this exchange (caller glue appends the
    flag byte, as OP_SIGN does)."""
    if e.sf is None:
        # raw variants: the message is the whole sigfield1
        lock = T.make_single_sig_lock(e.X, '00')
        sf = {'sigfield1': e.m}
        item = sig
    else:
        lock = T.make_single_sig_lock(e.X, e.bflags)
        sf = dict(e.sf)
        item = sig + (bytes.fromhex(e.flags) if int(e.flags, 16) else b'')
    try:
        r = F.run_auth_scripts([e.ext_code + pb(item), _fm(e, lock)], sf, **_lim(e))
    except BaseException:       # noqa
        run.aux_auth_raised += 1
        return False
    return r is True


def one_shot(e, R, sa, run):
    """the variant's composed lock flow; returns True/False or None if n/a"""
    w = e.ext_code + pb(sa) + pb(R)
    glue = 'concat' + (' push x%s concat' % e.flags if int(e.flags, 16) else '')
    try:
        if e.v == 'three_script':
            s1, s2, s3 = T.make_adapter_locks_prv(e.X, e.t, e.bflags)
            return F.run_auth_scripts([w, _fm(e, s2), T.compile_script(glue), _fm(e, s3)],
                                      dict(e.sf), **_lim(e)) is True
        if e.v == 'deprecated':
            # (documented as deprecated: a DeprecationWarning from this builder is not a
            # defect, also where the configuration pass turns warnings into errors)
            import warnings
            with warnings.catch_warnings():
                warnings.simplefilter('ignore', DeprecationWarning)
                lock = T.make_adapter_lock_prv(e.X, e.t, e.bflags)
            return F.run_auth_scripts([e.ext_code + pb(e.t) + pb(sa) + pb(R), _fm(e, lock)],
                                      dict(e.sf), **_lim(e)) is True
        if e.v == 'two_script':
            s1, s2 = T.make_adapter_locks_pub(e.X, e.T, e.bflags)
            dec = T.make_adapter_decrypt(e.t)
            return F.run_auth_scripts([w, _fm(e, dec), T.compile_script(glue), _fm(e, s2)],
                                      dict(e.sf), **_lim(e)) is True
    except BaseException:       # noqa
        run.aux_auth_raised += 1
        return False
    return None


# ------------------------------------------------------------------ execute

def execute(plan, run):
    reset_world(plan['run_seed'])
    if plan['idx'] % 7 == 3:
        # every seventh run: some of the cache-this-value flags are switched off
        if caching_flags_off(plan['run_seed']):
            run.probe('caching_flags_off')
    exs = {eid: Ex(eid, spec) for eid, spec in plan['exchanges'].items()}
    if any(e.ext_src for e in exs.values()):
        # registered for the whole run; exchanges that do not configure it are not
        # affected by it (its default is "extend nothing")
        F.add_signature_extension(ext_plugin)
        run.probe('signature_extension_configured_by_prefix')
    rng = Rng(plan['run_seed'] ^ 0x5eed)
    for e in exs.values():
        run.probe('variant_' + e.v)
        if e.tweak_is_nonce:
            run.probe('tweak_point_equals_nonce_point')
        if e.tweak_is_key:
            run.probe('tweak_point_equals_signer_key')
        tc = e.spec['tweak_class']
        if tc in ('one', 'Lm1', 'Lp1', 'bit255'):
            run.probe('edge_scalar_' + tc)
        if 'm' in e.spec:
            if len(e.m) == 0:
                run.probe('msg_len_0')
            if len(e.m) == 512:
                run.probe('msg_len_512')
        else:
            sizes = [len(v) // 2 for v in e.spec['sigfields'].values()]
            if not any(sizes):
                run.probe('builder_msg_len_0')
            if max(sizes) >= 511:
                run.probe('builder_msg_len_512')
    for i, st in enumerate(plan['steps']):
        e = exs.get(st['ex'])
        if e is None:
            continue
        run.cur_step = i
        act = st['act']
        f = st.get('fault')
        run.sched.append([act, e.v, (f or {}).get('kind', ''), (f or {}).get('field', '')])
        tag = [e.v, act, e.spec['tweak_class'], e.flags]
        if act == 'offer':
            Tm = e.T
            if f and f['kind'] == 'drop':
                run.fault('drop')
                continue
            if f and f['kind'] == 'corrupt':
                Tm = flip(Tm, f['bit'])
                run.fault('corrupt_T')
                run.probe('corrupt_T')
            if f and f['kind'] == 'dup':
                run.fault('dup')
            e.T_at_A = Tm
            run.ev('offer', i, e.eid, Tm.hex())
        elif act == 'adapt':
            if e.T_at_A is None:
                continue
            try:
                R, sa = build_adapter(e, e.T_at_A)
            except LIB_ERRORS as exc:
                from ..core import RealCodeRaised
                if isinstance(exc, RealCodeRaised) and e.T_at_A != e.T:
                    # a corrupted T may be an invalid point: A legitimately refuses
                    run.ev('adapt_refused', i, e.eid)
                    continue
                raise
            e.sent = (R, sa)
            e.sent_for_T = e.T_at_A
            if e.v == 'raw_private':
                # this op is handed t and derives T itself: what travelled in the
                # offer message does not enter the adapter
                e.sent_for_T = e.T_from_private
                # the op returns the T it derived from t: must be the point of t
                run.check('private_op_T', e.T_from_private == e.T,
                          'C17/raw_private/T_output_is_not_point_of_t', step=i)
            if f and f['kind'] == 'drop':
                run.fault('drop')
                continue
            Rm, sam = R, sa
            if f and f['kind'] == 'corrupt':
                if f['field'] == 'sa':
                    sam = flip(sa, f['bit'])
                    if f['bit'] % 256 == 255:
                        run.probe('sa_bit255')
                    if f.get('negate') and scalar_to_int(sa) % L:
                        sam = int_to_scalar(L - scalar_to_int(sa) % L)      # -sa
                        run.probe('negated_adapter_scalar')
                else:
                    Rm = flip(R, f['bit'])
                    if f.get('negate'):
                        Rm = flip(R, 255)                                   # -R
                        run.probe('negated_nonce_point')
                run.fault('corrupt_' + f['field'])
                run.probe('corrupt_' + f['field'])
            e.inbox.append((Rm, sam))
            if f and f['kind'] == 'dup':
                run.fault('dup')
                e.inbox.append((Rm, sam))
            run.ev('adapt', i, e.eid, R.hex(), sa.hex())
        elif act in ('splice', 'misroute'):
            o = exs.get(st.get('with'))
            if o is None or o.sent is None or e.sent is None:
                continue
            if act == 'splice':
                e.inbox.append((e.sent[0], o.sent[1]))
            else:
                e.inbox.append(o.sent)
            run.fault(act)
            run.probe(act)
        elif act == 'check':
            if not e.inbox:
                continue
            view = st.get('view')
            Xv, Tv, mv = e.X, e.T, e.m
            sfv = dict(e.sf) if e.sf is not None else None
            if view:
                run.fault('corrupt_' + view['field'])
                run.probe('corrupt_' + view['field'])
                if view['field'] == 'X':
                    Xv = flip(Xv, view['bit'])
                elif view['field'] == 'T':
                    Tv = flip(Tv, view['bit'])
                else:
                    if sfv is None:
                        mv = flip(mv, view['bit'])
                    else:
                        live = [k for k in sorted(sfv) if not (int(e.flags, 16) >> (int(k[8:]) - 1)) & 1]
                        if not live:
                            view = None
                        else:
                            k = live[view['bit'] % len(live)]
                            sfv[k] = flip(sfv[k], view['bit'])
                            mv = sig_message(ext_fields(sfv, e.ext), int(e.flags, 16))
            for (R, sa) in list(e.inbox):
                damaged = (e.sent is None or (R, sa) != e.sent or e.sent_for_T != Tv or
                           Xv != e.X or mv != e.m)
                passed = run_check(e, R, sa, Xv, Tv, mv, sfv, bool(st.get('prefix')))
                if st.get('prefix'):
                    run.probe('check_after_unrelated_derive')
                which = []
                if e.sent is not None:
                    if sa != e.sent[1]:
                        which.append('sa')
                    if R != e.sent[0]:
                        which.append('R')
                if e.sent_for_T != Tv:
                    which.append('T')
                if Xv != e.X:
                    which.append('X')
                if mv != e.m:
                    which.append('m')
                wtag = '+'.join(which) or 'none'
                bit255 = (e.sent is not None and sa != e.sent[1] and
                          (sa[31] ^ e.sent[1][31]) == 0x80 and sa[:31] == e.sent[1][:31])
                if not damaged:
                    run.check('V1_completeness', passed,
                              'C17/%s/check/undamaged_adapter_rejected' % e.v, step=i,
                              detail={'ex': e.spec})
                else:
                    run.check('V2_detection', not passed,
                              'C17/%s/check/damaged_adapter_passed/%s%s' % (
                                  e.v, wtag, '_bit255' if bit255 else ''), step=i,
                              detail={'ex': e.spec, 'damaged': which, 'R': R.hex(), 'sa': sa.hex()})
                if passed:
                    # V3: verifiable encryption -- a passing check promises a valid
                    # signature after decryption with t
                    sig = run_decrypt(e, R, sa, e.t)
                    ok = sig is not None and len(sig) == 64 and ed_verify(Xv, mv, sig)
                    run.check('V3_soundness', ok,
                              'C17/%s/check_passed_but_decryption_invalid/%s%s' % (
                                  e.v, wtag, '_bit255' if bit255 else ''), step=i,
                              detail={'ex': e.spec, 'damaged': which})
                    if not view:
                        e.validated = (R, sa)
                run.cell(*tag, wtag, 'pass' if passed else 'fail')
                run.ev('check', i, e.eid, wtag, passed)
            e.inbox = []
        elif act == 'decrypt':
            if e.validated is None:
                continue
            R, sa = e.validated
            sig = run_decrypt(e, R, sa, e.t)
            # V4: equals (R+T, sa + t mod L), computed independently
            want = None
            try:
                want = point_add(R, e.T) + int_to_scalar(scalar_to_int(sa) + e.t_eff)
            except LIB_ERRORS:
                pass
            run.check('V4_decryption_value', sig is not None and sig == want,
                      'C17/%s/decrypt/not_R_plus_T_and_sa_plus_t' % e.v, step=i,
                      detail={'ex': e.spec, 'got': sig.hex() if sig else None,
                              'want': want.hex() if want else None})
            run.check('V4_decrypted_sig_verifies', sig is not None and ed_verify(e.X, e.m, sig),
                      'C17/%s/decrypt/signature_does_not_verify' % e.v, step=i, detail={'ex': e.spec})
            if e.sig_before_crash is not None:
                run.probe('crash_between_decrypt_and_publish')
                run.check('redecrypt_after_crash_same_bytes', sig == e.sig_before_crash,
                          'C17/%s/decrypt/differs_after_restart' % e.v, step=i)
                e.sig_before_crash = None
            e.sig = sig
            run.cell(*tag, 'ok' if sig == want else 'bad')
            run.ev('decrypt', i, e.eid, sig.hex() if sig else None)
        elif act == 'crash_B':
            if e.sig is not None:
                e.sig_before_crash = e.sig
                e.sig = None
                run.fault('crash_B')
        elif act == 'publish':
            if st['who'] == 'B':
                if e.sig is None or e.validated is None:
                    continue
                if st['what'] == 'one_shot':
                    r = one_shot(e, e.validated[0], e.validated[1], run)
                    if r is not None:
                        run.check('V7_builder_composition', r,
                                  'C17/%s/one_shot_flow_rejected/flags_%s' % (
                                      e.v, 'nonzero' if int(e.flags, 16) else '00'),
                                  step=i, detail={'ex': e.spec})
                        run.cell(*tag, 'one_shot', r)
                ok = spend(e, e.sig, run)
                run.check('V7_honest_spend_accepted', ok,
                          'C17/%s/decrypted_signature_rejected_by_validator' % e.v, step=i,
                          detail={'ex': e.spec})
                if ok:
                    run.probe('honest_spend_accepted')
                    e.published = e.sig
                    # the same signature with S + L for S (a third party can compute it
                    # from the publication): not a valid Ed25519 signature, not a spend
                    mal = malleate(e.sig)
                    run.probe('malleated_signature')
                    run.check('V6_only_t_decrypts',
                              not spend(e, mal, run) and not ed_verify(e.X, e.m, mal),
                              'C17/%s/malleated_signature_accepted' % e.v, step=i,
                              detail={'ex': e.spec})
                run.ev('publish', i, e.eid, 'B', ok)
            else:
                src = e.validated or e.sent
                if src is None:
                    continue
                R, sa = src
                what = st['what']
                if what == 'adapter_as_sig':
                    cand = R + sa
                    run.probe('adapter_as_sig')
                elif what == 'RT_with_sa':
                    try:
                        cand = point_add(R, e.T) + sa
                    except LIB_ERRORS:
                        continue
                else:
                    sc = st.get('scalar')
                    if sc == 'random':
                        z = rng.bytes(32)
                    elif sc == 't+1':
                        z = int_to_scalar(e.t_eff + 1)
                    elif sc == 't-1':
                        z = int_to_scalar(e.t_eff - 1)
                    else:
                        o = [x for x in exs.values() if x is not e]
                        z = o[0].t if o else rng.bytes(32)
                    # "wrong" is relative to the tweak point this adapter was really
                    # made for: an unvalidated adapter may have been made for a T that
                    # was damaged in the offer (e.g. T=G with its sign bit flipped is
                    # -G, whose discrete log L-1 another exchange may hold)
                    z_eff = scalar_to_int(clamp255(z)) % L
                    T_used = e.T if src is e.validated else e.sent_for_T
                    if z_eff == 0 or base_mult(int_to_scalar(z_eff)) == T_used:
                        continue
                    cand = run_decrypt(e, R, sa, z)
                    run.probe('wrong_scalar_decrypt')
                    if cand is None:
                        continue
                ok = spend(e, cand, run)
                run.check('V6_only_t_decrypts', not ok and not ed_verify(e.X, e.m, cand),
                          'C17/%s/%s_accepted_as_signature' % (e.v, what), step=i,
                          detail={'ex': e.spec, 'what': what})
                run.cell(*tag, what, ok)
                run.ev('publish', i, e.eid, what, ok)
        elif act == 'settle_pair':
            o = exs.get(st.get('with'))
            if o is None or e.validated is None or o.validated is None:
                continue
            run.probe('two_adapters_in_one_execution')
            chk = T.compile_script('check_adapter_sig verify')
            dec = T.compile_script('decrypt_adapter_sig')
            pair = [e, o]
            code = b''
            for x in pair:
                R, sa = x.validated
                code += pb(sa) + pb(R) + pb(x.m) + pb(x.T) + pb(x.X) + chk
            order = pair if st.get('order') == 'ab' else pair[::-1]
            for x in order:
                R, sa = x.validated
                code += pb(sa) + pb(R) + pb(x.t) + dec
            want = []
            for x in order:
                R, sa = x.validated
                want += [point_add(R, x.T), int_to_scalar(scalar_to_int(sa) + x.t_eff)]
            try:
                _, stk, _ = F.run_script(code)
                got = stk.list()
            except LIB_ERRORS as exc:
                got = 'raised ' + type(exc).__name__
            run.check('V4_each_adapter_decrypts_to_its_own_signature', got == want,
                      'C17/two_adapters_in_one_execution/%s' % (
                          'raised' if isinstance(got, str) else 'wrong_decryption'),
                      step=i, detail={'a': e.spec, 'b': o.spec, 'order': st.get('order')})
            if got == want:
                ok = all(ed_verify(x.X, x.m, got[2 * k] + got[2 * k + 1]) for k, x in enumerate(order))
                run.check('V4_decrypted_sig_verifies', ok,
                          'C17/two_adapters_in_one_execution/signature_does_not_verify', step=i)
            run.ev('settle_pair', i, e.eid, o.eid, got == want)
        elif act == 'neutral_offer':
            run.probe('neutral_tweak_point_offered')
            ident = b'\x01' + b'\x00' * 31
            made = None
            try:
                made = build_adapter(e, ident) if e.v != 'raw_private' else None
            except LIB_ERRORS:
                made = None
            except Exception:
                made = None
            if made is None:
                run.evals += 1          # refused: nothing to decrypt, nothing to publish
                run.cell(*tag, 'neutral', 'refused')
                continue
            R0, sa0 = made
            passed = run_check(e, R0, sa0, e.X, ident, e.m, dict(e.sf) if e.sf is not None else None)
            asig = spend(e, R0 + sa0, run)
            run.check('V6_adapter_is_not_a_signature', not (passed and asig) and
                      not ed_verify(e.X, e.m, R0 + sa0),
                      'C17/%s/adapter_for_neutral_tweak_point_is_a_plain_signature' % e.v, step=i,
                      detail={'ex': e.spec, 'check_passed': passed, 'accepted_as_signature': asig})
            run.cell(*tag, 'neutral', passed, asig)
        elif act == 'extract':
            if e.published is None or e.sent is None:
                continue
            s = e.published[32:]
            sa = e.sent[1]
            # anyone recovers t = s - sa (mod L); compare as points
            rec = nb.crypto_core_ed25519_scalar_sub(s, sa)
            ok = False
            try:
                ok = base_mult(rec) == e.T
            except LIB_ERRORS:
                pass
            run.probe('extract')
            run.check('V5_extraction', ok and scalar_to_int(rec) % L == e.t_eff,
                      'C17/%s/extracted_scalar_is_not_t' % e.v, step=i, detail={'ex': e.spec})
            run.ev('extract', i, e.eid, ok)
    run.fault_free = bool(plan['knobs'].get('fault_free'))
    e0 = plan['exchanges'].get('e0')
    run.sample = {'exchange': e0, 'steps': [s for s in plan['steps'] if s['ex'] == 'e0'][:8]}
    run.sim_us = len(plan['steps']) * 1000


def shrink(plan):
    p = plan
    used = {s['ex'] for s in p['steps']} | {s.get('with') for s in p['steps']}
    for eid in sorted(p['exchanges']):
        if eid not in used:
            c = copy.deepcopy(p)
            del c['exchanges'][eid]
            yield c
    for i, s in enumerate(p['steps']):
        for key in ('fault', 'view'):
            if s.get(key):
                c = copy.deepcopy(p)
                c['steps'][i][key] = None
                yield c
    for eid, ex in sorted(p['exchanges'].items()):
        if 'sigfields' in ex and len(ex['sigfields']) > 1:
            c = copy.deepcopy(p)
            k0 = sorted(ex['sigfields'])[0]
            c['exchanges'][eid]['sigfields'] = {k0: ex['sigfields'][k0]}
            yield c
        if ex.get('m') and len(ex['m']) > 2:
            c = copy.deepcopy(p)
            c['exchanges'][eid]['m'] = ex['m'][:2]
            yield c
