"""C19 -- extension registries behave as sets; runs do not leak state into
later runs.  DESIGN.md section 3.6.

One OS process per history (ISOLATE): registries are process-global and there
is nothing durable, so a forked pristine image is both the "restart" and the
only way to start every history from the shipped state."""
import copy
from typing import Protocol, runtime_checkable

from ..prng import Rng
from ..core import real
from ..seams import CLOCK, ENTROPY, F, P, T, ScriptExecutionError, reset_world

PID = 'C19'
ISOLATE = True
RUNS = {'quick': 6000, 'thorough': 120000}
STEP_KEYS = ['steps']
BATCH = 1           # runs per forked process (see core.execute_seq)
COMPONENTS = {
    'real': ['add/remove/reset_plugin(s)', 'add/remove/reset_signature_extension(s)',
             'add/remove_contract', 'add/remove_contract_interface', 'add_alias',
             'run_script', 'run_auth_scripts', 'run_plugins', 'compile_script',
             'Script.from_src', 'assemble', 'parse_comptime', 'get_symbols',
             'decompile_script', 'OP_INVOKE', 'OP_CHECK_TRANSFER',
             'OP_CHECK_TEMPLATE', 'OP_GET_MESSAGE', 'OP_SIGN/CHECK_SIG'],
    'stub': ['embedder process (one fork per history)', 'recorder / raising / '
             're-entrant plugins and contracts', 'set/dict reference model'],
}
RULE = ('each run = one history of 6-30 (thorough: up to 60) registry / run / '
        'compile calls in a freshly forked process, incl. callbacks that raise '
        'or re-enter the registry API mid-run; history i starts with the i-th '
        'sequence (mixed radix, all sequences of length <= 3 over a %d-op core '
        'alphabet come first); after every call a behavioural probe battery is '
        'compared with a set/dict model; distinct = distinct tuples (op kind, '
        'model registry shape before the op, outcome class)')
REQUIRED_PROBES = ['reset_with_ge2', 'reentrant_remove_self', 'reentrant_reset',
                   'callback_raised_depth_0', 'callback_raised_depth_1',
                   'callback_raised_depth_2', 'callback_raised_depth_3',
                   'failed_add_contract', 'override_plugins_run',
                   'override_contracts_run', 'default_macros_entry_point',
                   'macro_name_collision', 'invalid_arg_call']

SCOPES = ['signature_extensions', 'check_template', 'custom']
SC = {'se': 'signature_extensions', 'ct': 'check_template', 'cu': 'custom'}
IDS = {'ID0': b'\x10' * 4, 'ID1': b'\x11' * 4, 'ID2': b'\x12' * 4}
SCRATCH = b'\x5c' * 4
PRET = [False, True, False]
FIELD = b'field-one'
TEMPLATE = b'template'


@runtime_checkable
class HasPing(Protocol):
    def ping(self) -> bytes:
        ...


@runtime_checkable
class HasPong(Protocol):
    def pong(self) -> bytes:
        ...


SATISFIES = {   # contract kind -> interfaces it structurally satisfies
    'CIa': {'CanBeInvoked'}, 'CIb': {'CanBeInvoked'},
    'CT': {'CanCheckTransfer', 'HasPong'}, 'CN': set(), 'CX': {'HasPing'},
    'CIX': {'CanBeInvoked', 'HasPing'},
}

# ---------------------------------------------------------------- alphabet

CORE = [
    {'op': 'add_plugin', 'scope': 'se', 'p': 0},
    {'op': 'add_plugin', 'scope': 'se', 'p': 1},
    {'op': 'add_plugin', 'scope': 'se', 'p': 2},
    {'op': 'remove_plugin', 'scope': 'se', 'p': 1},
    {'op': 'reset_plugins', 'scope': 'se'},
    {'op': 'add_plugin', 'scope': 'ct', 'p': 1},
    {'op': 'reset_plugins', 'scope': 'ct'},
    {'op': 'add_contract', 'id': 'ID0', 'c': 'CIa'},
    {'op': 'remove_contract', 'id': 'ID0'},
    {'op': 'remove_iface', 'i': 'CanBeInvoked'},
    {'op': 'add_iface', 'i': 'HasPing'},
    {'op': 'add_alias', 'alias': 'yea', 'target': 'op_true'},
    {'op': 'run', 'how': 'script', 'script': 'msg'},
    {'op': 'compile', 'how': 'assemble', 'src': 0},
]
N_CORE = len(CORE)

SOURCES = [
    '!= foo [ a ] { push a } !foo [ d1 ]',
    '!foo [ d2 ]',
    '!= foo [ a b ] { push a push b } !foo [ d1 d2 ]',
    '!bar [ ]',
    '@= x [ d5 ] @x',
    '@x',
    'push ~ { true false }',
    'push ~! { push d2 push d3 add_ints d2 }',
    'def 0 { true } call d0',
    'true loop { false }',
    '~ { != baz [ ] { true } } !baz [ ]',
    '!baz [ ]',
    '!= bar [ ] { false } !bar [ ]',
]
BATTERY_SCRIPTS = [
    'push d1 push d2 add_ints d2',
    'def 0 { push d7 } call d0 call d0',
    'true loop { false }',
    'false verify',
    'push x01 @= k 1 @k',
    'get_value s"timestamp"',
    'push d4 random size',
    'try { false verify } except { true }',
]
ENTRY = ['compile_script', 'from_src', 'assemble', 'parse_comptime']
ALIAS_CONTEXTS = ['%s', 'op_push1 x01 %s', 'op_push2 x0102 %s', 'true if { %s }',
                  'push x01 %s pop0', 'op_push1 d1 x07 %s', 'def 0 { %s }',
                  'try { %s } except { true }', 'try { true } except { %s }',
                  'true loop { %s false }', 'false if { true } else { %s }',
                  'push ~ { %s }']
RUN_SCRIPTS = ['msg', 'msg2', 'ct', 'ctsame', 'inv0', 'inv1', 'inv2', 'xfer', 'sign',
               'fail', 'cachekey']
NESTS = ['top', 'if', 'else', 'try', 'except', 'loop', 'call', 'eval', 'if_call', 'if_try_call']
DEPTH = {'top': 0, 'if': 1, 'else': 1, 'try': 1, 'except': 1, 'loop': 1, 'call': 1, 'eval': 1,
         'if_call': 2,
         'if_try_call': 3}
BAD_CALLS = ['add_plugin_scope_int', 'add_plugin_not_callable', 'remove_plugin_scope_int',
             'reset_plugins_none', 'add_contract_str_id', 'remove_contract_str_id',
             'add_iface_not_protocol', 'remove_iface_not_protocol', 'add_alias_int',
             'add_alias_bad_chars', 'add_alias_unknown_op']


def _rand_op(rng: Rng):
    k = rng.weighted([(22, 'plugin'), (12, 'contract'), (8, 'iface'), (6, 'alias'),
                      (18, 'run'), (10, 'frun'), (12, 'compile'), (6, 'bad'),
                      (3, 'decompile')])
    if k == 'plugin':
        scope = rng.choice(['se', 'se', 'ct', 'cu'])
        w = rng.weighted([(5, 'add_plugin'), (3, 'remove_plugin'), (2, 'reset_plugins'),
                          (2, 'wrapper')])
        if w == 'wrapper':
            w2 = rng.choice(['add_sigext', 'remove_sigext', 'reset_sigext'])
            return {'op': w2, 'p': rng.below(3)} if w2 != 'reset_sigext' else {'op': w2}
        if w == 'reset_plugins':
            return {'op': w, 'scope': scope}
        return {'op': w, 'scope': scope, 'p': rng.below(3)}
    if k == 'contract':
        if rng.chance(3, 5):
            return {'op': 'add_contract', 'id': rng.choice(sorted(IDS)),
                    'c': rng.choice(sorted(SATISFIES))}
        return {'op': 'remove_contract', 'id': rng.choice(sorted(IDS))}
    if k == 'iface':
        return {'op': rng.choice(['add_iface', 'remove_iface']),
                'i': rng.choice(['HasPing', 'HasPong', 'CanBeInvoked', 'CanCheckTransfer'])}
    if k == 'alias':
        return {'op': 'add_alias',
                'alias': rng.choice(['yea', 'Yea', 'YEA', 'twin', 'TWIN', 'tWiN']),
                'target': rng.choice(['op_true', 'OP_TRUE', 'OP_FALSE', 'op_dup', 'OP_DUP'])}
    if k in ('run', 'frun'):
        op = {'op': 'run', 'how': rng.choice(['script', 'script', 'auth', 'auth_late']),
              'script': rng.choice(RUN_SCRIPTS)}
        if rng.chance(1, 3):
            op['ov_plugins'] = {rng.choice(['se', 'ct', 'cu']):
                                sorted(rng.sample([0, 1, 2], rng.below(3)))}
        if rng.chance(1, 3):
            op['ov_contracts'] = {rng.choice(sorted(IDS)): rng.choice(sorted(SATISFIES))}
        if rng.chance(1, 3):
            op['cache'] = True
        if rng.chance(1, 4):
            # flag 10 off: documented to keep CHECK_TEMPLATE from running the signature
            # extensions first -- and nothing else
            op['flag10_off'] = True
        if rng.chance(1, 3):
            # the caller stamps the execution itself (the documented way to evaluate
            # time locks at a chosen time)
            op['cache_ts'] = rng.choice([0, 1, 1_700_000_000])
        if k == 'run' and rng.chance(1, 2):
            op['nest'] = rng.choice(NESTS)
        if k == 'frun':
            op['nest'] = rng.choice(NESTS)
            kind = rng.weighted([(4, 'plugin'), (4, 'abi'), (2, 'ct')])
            if kind == 'plugin':
                op['script'] = rng.choice(['msg', 'msg2', 'ct', 'ctsame', 'sign'])
                op['fault'] = {'cb': ['plugin', rng.below(3)],
                               'scope': 'ct' if op['script'] in ('ct', 'ctsame') and rng.chance(1, 2) else 'se',
                               'act': rng.choice(['raise_exc', 'raise_see', 'raise_custom',
                                                  'remove_self', 'add_sibling', 'reset_scope',
                                                  'add_contract', 'remove_contract',
                                                  'nested_run'])}
            elif kind == 'abi':
                op['script'] = rng.choice(['inv0', 'inv1', 'inv2'])
                op['fault'] = {'cb': ['abi'],
                               'act': rng.choice(['raise_exc', 'raise_see', 'raise_custom',
                                                  'remove_self', 'add_contract',
                                                  'remove_contract', 'nested_run',
                                                  'reset_scope', 'add_sibling'])}
            else:
                op['script'] = 'xfer'
                op['fault'] = {'cb': ['ct', rng.choice(['verify_txn_proof', 'verify_transfer',
                                                        'verify_txn_constraint',
                                                        'calc_txn_aggregates'])],
                               'act': rng.choice(['raise_exc', 'raise_see', 'remove_contract',
                                                  'add_contract', 'nested_run'])}
        return op
    if k == 'compile':
        return {'op': 'compile', 'how': rng.choice(ENTRY), 'src': rng.below(len(SOURCES))}
    if k == 'decompile':
        return {'op': 'decompile', 'src': rng.choice([0, 4, 6, 8, 9])}
    return {'op': 'bad', 'call': rng.choice(BAD_CALLS)}


def gen_plan(run_seed, idx, tier):
    rng = Rng(run_seed)
    steps = []
    # mixed-radix prefix: all sequences of length 1, then 2, then 3, (then 4)
    i = idx
    for ln in (1, 2, 3, 4):
        if i < N_CORE ** ln:
            for _ in range(ln):
                steps.append(copy.deepcopy(CORE[i % N_CORE]))
                i //= N_CORE
            break
        i -= N_CORE ** ln
    total = rng.rng(6, 60 if tier == 'thorough' else 30)
    while len(steps) < total:
        steps.append(_rand_op(rng))
    return {'property': PID, 'run_seed': run_seed, 'idx': idx,
            'knobs': {'fault_free': not any('fault' in s for s in steps)},
            'steps': steps}


# ------------------------------------------------------------------ model

class Model:
    def __init__(self):
        self.plugins = {'signature_extensions': [], 'check_template': []}
        self.contracts = {}
        self.ifaces = {'CanCheckTransfer', 'CanBeInvoked'}
        self.aliases = {}

    def add_plugin(self, scope, p):
        lst = self.plugins.setdefault(scope, [])
        if p not in lst:
            lst.append(p)

    def remove_plugin(self, scope, p):
        if scope in self.plugins and p in self.plugins[scope]:
            self.plugins[scope].remove(p)

    def reset_plugins(self, scope):
        if scope in self.plugins:
            self.plugins[scope] = []

    def contract_ok(self, kind):
        return bool(SATISFIES[kind] & self.ifaces)

    def shape(self):
        return 'p%d%d%d.c%d.i%d.a%d' % (
            len(self.plugins.get('signature_extensions', [])),
            len(self.plugins.get('check_template', [])),
            len(self.plugins.get('custom', [])),
            len(self.contracts), len(self.ifaces), len(self.aliases))


# ------------------------------------------------------------------ world

class Boom(Exception):
    pass


class _Plugins:
    """the three recorder plugins; number 2 is a *bound method*, looked up afresh
    on every access like an embedder writing `obj.on_sig` would: equal to the
    registered entry but never the identical object"""

    def __init__(self, w):
        self.w = w
        self.fns = [w._mk_plugin(0), w._mk_plugin(1)]

    def __getitem__(self, i):
        if i == 2:
            return self.w.recorder_method
        return self.fns[i]


class World:
    def recorder_method(self, tape, stack, cache):
        phase = 'ct' if len(tape.data) == 0 else 'se'
        self.log.append(['P', 2, phase])
        self.fire(['plugin', 2], own=2, phase=phase)
        return PRET[2]

    def __init__(self, run):
        self.run = run
        self.m = Model()
        self.log = []
        self.armed = None
        self.depth = 0
        self.plugins = _Plugins(self)
        self.kinds = {}
        w = self

        class _Inv:
            def __init__(s, tag):
                s.tag = tag

            def abi(s, args):
                w.log.append(['abi', s.tag])
                w.fire(['abi'], own=s)
                return [s.tag.encode()]

        class _InvPing(_Inv):
            def ping(s):
                return b'ping'

        class _Xfer:
            tag = 'CT'

            def verify_txn_proof(s, proof):
                w.log.append(['ct', 'verify_txn_proof'])
                w.fire(['ct', 'verify_txn_proof'], own=s)
                return True

            def verify_transfer(s, proof, source, destination):
                w.log.append(['ct', 'verify_transfer'])
                w.fire(['ct', 'verify_transfer'], own=s)
                return True

            def verify_txn_constraint(s, proof, constraint):
                w.log.append(['ct', 'verify_txn_constraint'])
                w.fire(['ct', 'verify_txn_constraint'], own=s)
                return True

            def calc_txn_aggregates(s, proofs, scope=None):
                w.log.append(['ct', 'calc_txn_aggregates'])
                w.fire(['ct', 'calc_txn_aggregates'], own=s)
                return {scope: 100}

            def pong(s):
                return b'pong'

        class _Neither:
            tag = 'CN'

        class _Ping:
            tag = 'CX'

            def ping(s):
                return b'ping'

        self.contracts = {'CIa': _Inv('CIa'), 'CIb': _Inv('CIb'), 'CT': _Xfer(),
                          'CN': _Neither(), 'CX': _Ping(), 'CIX': _InvPing('CIX')}
        self.ifaces = {'HasPing': HasPing, 'HasPong': HasPong,
                       'CanBeInvoked': F.CanBeInvoked, 'CanCheckTransfer': F.CanCheckTransfer}

    def _mk_plugin(self, i):
        def plugin(tape, stack, cache):
            phase = 'ct' if len(tape.data) == 0 else 'se'
            self.log.append(['P', i, phase])
            self.fire(['plugin', i], own=i, phase=phase)
            return PRET[i]
        plugin.__name__ = 'recorder_plugin_%d' % i
        return plugin

    # -- armed one-shot behaviour of a callback (fault / re-entrancy)
    def fire(self, cb, own=None, phase=None):
        a = self.armed
        if a is None or a['cb'] != cb:
            return
        if cb[0] == 'plugin' and phase is not None and a.get('scope', 'se') != phase:
            return
        self.armed = None
        act = a['act']
        run = self.run
        run.fault('callback_' + act)
        if act.startswith('raise'):
            run.probe('callback_raised_depth_%d' % a.get('depth', 0))
            if act == 'raise_exc':
                raise RuntimeError('injected')
            if act == 'raise_see':
                raise ScriptExecutionError('injected')
            raise Boom('injected')
        scope = SC[a.get('scope', 'se')]
        if act == 'remove_self':
            if cb[0] == 'plugin':
                F.remove_plugin(scope, self.plugins[own])
                self.m.remove_plugin(scope, own)
            else:
                for cid, kind in list(self.m.contracts.items()):
                    if self.contracts[kind] is own:
                        F.remove_contract(cid)
                        del self.m.contracts[cid]
            run.probe('reentrant_remove_self')
        elif act == 'add_sibling':
            sib = ((own if isinstance(own, int) else 0) + 1) % 3
            F.add_plugin(scope, self.plugins[sib])
            self.m.add_plugin(scope, sib)
            run.probe('reentrant_add_sibling')
        elif act == 'reset_scope':
            F.reset_plugins(scope)
            self.m.reset_plugins(scope)
            run.probe('reentrant_reset')
        elif act == 'add_contract':
            ok = self.m.contract_ok('CIb')
            try:
                F.add_contract(IDS['ID2'], self.contracts['CIb'])
            except ScriptExecutionError:
                if ok:
                    raise
            else:
                self.m.contracts[IDS['ID2']] = 'CIb'
            run.probe('reentrant_add_contract')
        elif act == 'remove_contract':
            F.remove_contract(IDS['ID0'])
            self.m.contracts.pop(IDS['ID0'], None)
            run.probe('reentrant_remove_contract')
        elif act == 'nested_run':
            F.run_script(T.compile_script('get_message x00'), {'sigfield1': FIELD})
            run.probe('reentrant_nested_run')


def _script_src(name, nest):
    if name == 'msg':
        body = 'get_message x00 pop0'
    elif name == 'msg2':
        body = 'get_message x00 pop0 get_message x00 pop0'
    elif name == 'ct':
        body = 'push x%s check_template x01 pop0' % TEMPLATE.hex()
    elif name == 'ctsame':
        # the template equals the field: the plugins still decide
        body = 'push x%s check_template x01 pop0' % FIELD.hex()
    elif name.startswith('inv'):
        body = 'push d0 push x%s invoke pop0' % IDS['ID' + name[3]].hex()
    elif name == 'xfer':
        body = ('push s"proof" push s"src" push d1 push s"dst" push s"cons" push d10 '
                'push x%s check_transfer pop0' % IDS['ID1'].hex())
    elif name == 'sign':
        body = ('push x%s sign x00 push x%s check_sig x00 pop0' % (
            (b'\x07' * 32).hex(), _pk(b'\x07' * 32).hex()))
    elif name == 'fail':
        body = 'def 5 { push d1 push d0 div_ints } true loop { call d5 }'
    elif name == 'cachekey':
        body = 'push x01 push x02 @= kk 2 @kk pop0 pop0 @mine pop0'
    else:
        raise ValueError(name)
    if name == 'fail' and nest in ('call', 'if_call', 'if_try_call'):
        nest = 'top'        # its body defines a subroutine itself: no def inside def
    if nest == 'top':
        return body
    if nest == 'if':
        return 'true if { %s }' % body
    if nest == 'try':
        return 'try { %s } except { true pop0 }' % body
    if nest == 'except':
        return 'try { false verify } except { %s }' % body
    if nest == 'else':
        return 'false if { true pop0 } else { %s }' % body
    if nest == 'loop':
        return 'true loop { %s false }' % body
    if nest == 'call':
        return 'def 3 { %s } call d3' % body
    if nest == 'eval':
        return 'push x%s eval' % T.compile_script(body).hex()
    if nest == 'if_call':
        return 'def 3 { %s } true if { call d3 }' % body
    if nest == 'if_try_call':
        return 'def 3 { %s } true if { try { call d3 } except { true pop0 } }' % body
    raise ValueError(nest)


_PKS = {}


def _pk(seed):
    if seed not in _PKS:
        from nacl.signing import SigningKey
        _PKS[seed] = bytes(SigningKey(seed).verify_key)
    return _PKS[seed]


def _outcome(fn):
    """class of what a call did: ('ok', value) or ('exc', class name)"""
    try:
        return ['ok', fn()]
    except ScriptExecutionError:
        return ['exc', 'ScriptExecutionError']
    except BaseException as e:      # noqa
        return ['exc', type(e).__name__]


def _pin():
    """same clock / entropy for every probe: only leaked state can differ"""
    CLOCK.reset()
    ENTROPY.reset(99)


def battery(w):
    """registry-independent results; must be identical at every point of
    every history"""
    out = []
    for si, src in enumerate(SOURCES):
        for how in ENTRY:
            if '!=' in src and how in ('assemble', 'parse_comptime'):
                # the battery itself must not define macros through the
                # default-argument entry points (it would be the history)
                continue
            _pin()
            out.append(['src', si, how, _outcome(lambda: _compile(how, src))])
    for si, src in enumerate(BATTERY_SCRIPTS):
        _pin()
        code = T.compile_script(src)
        out.append(['run', si, _outcome(lambda: _runres(code))])
    return out


def _compile(how, src):
    if how == 'compile_script':
        return T.compile_script(src).hex()
    if how == 'from_src':
        return T.Script.from_src(src).bytes.hex()
    if how == 'assemble':
        return P.assemble(P.get_symbols(src)).hex()
    return P.parse_comptime(P.get_symbols(src))


def _runres(code):
    tape, stack, cache = F.run_script(code)
    keys = sorted((k if isinstance(k, str) else 'x' + k.hex()) for k in cache)
    return [[i.hex() for i in stack.list()], keys]


def probe_registry(w):
    """behavioural view of the registries -> list of [name, observed, expected]
    mismatches"""
    m = w.m
    bad = []
    # plugins, signature_extensions scope
    _pin()
    w.log = []
    r = _outcome(lambda: F.run_script(T.compile_script('get_message x00'),
                                      {'sigfield1': FIELD})[1].list())
    obs = sorted(e[1] for e in w.log if e[0] == 'P' and e[2] == 'se')
    exp = sorted(m.plugins.get('signature_extensions', []))
    if obs != exp or r != ['ok', [FIELD]]:
        bad.append(['plugins/signature_extensions', [obs, r[0]], exp])
    # check_template scope (signature extensions run first, flag 10)
    for tmpl in (TEMPLATE, FIELD):      # (a template equal to the field is no exception)
        _pin()
        w.log = []
        r = _outcome(lambda: F.run_script(
            T.compile_script('push x%s check_template x01' % tmpl.hex()),
            {'sigfield1': FIELD})[1].list())
        obs_se = sorted(e[1] for e in w.log if e[0] == 'P' and e[2] == 'se')
        obs_ct = sorted(e[1] for e in w.log if e[0] == 'P' and e[2] == 'ct')
        exp_ct = sorted(m.plugins.get('check_template', []))
        verdict = any(PRET[i] for i in exp_ct) if exp_ct else tmpl == FIELD
        expr = ['ok', [b'\xff' if verdict else b'\x00']]
        if obs_ct != exp_ct or obs_se != exp or r != expr:
            bad.append(['plugins/check_template' + ('_same' if tmpl == FIELD else ''),
                        [obs_se, obs_ct, r], [exp, exp_ct, expr]])
    # custom scope through run_plugins on a tape of a fresh run
    _pin()
    w.log = []
    tape, stack, cache = F.run_script(b'\x01')
    r = _outcome(lambda: F.run_plugins('custom', tape, stack, cache))
    obs = sorted(e[1] for e in w.log if e[0] == 'P')
    exp_cu = sorted(m.plugins.get('custom', []))
    if obs != exp_cu or r != ['ok', [PRET[i] for i in m.plugins.get('custom', [])]] and \
            sorted(map(str, r[1] if r[0] == 'ok' else [])) != sorted(str(PRET[i]) for i in exp_cu):
        bad.append(['plugins/custom', [obs, r], exp_cu])
    # contracts: invoke every id
    for cid in sorted(IDS.values()) + [SCRATCH]:
        _pin()
        w.log = []
        r = _outcome(lambda: F.run_script(
            T.compile_script('push d0 push x%s invoke' % cid.hex()))[1].list())
        kind = m.contracts.get(cid)
        if kind is not None and 'CanBeInvoked' in SATISFIES[kind]:
            expr = ['ok', [kind.encode()]]
        else:
            expr = ['exc', 'ScriptExecutionError']
        if r != expr:
            bad.append(['contracts/invoke', [cid.hex(), r], expr])
    # the registry also reaches the later scripts of run_auth_scripts
    for cid in sorted(IDS.values()):
        _pin()
        w.log = []
        r = _outcome(lambda: F.run_auth_scripts(
            [T.compile_script('push d0 push x%s' % cid.hex()), T.compile_script('true pop0'),
             T.compile_script('invoke pop0 true')]))
        kind = m.contracts.get(cid)
        want = kind is not None and 'CanBeInvoked' in SATISFIES[kind]
        if r != ['ok', want]:
            bad.append(['contracts/invoke_from_third_auth_script', [cid.hex(), r], want])
    _pin()
    w.log = []
    r = _outcome(lambda: F.run_auth_scripts(
        [T.compile_script('true'), T.compile_script('get_message x00 pop0')], {'sigfield1': FIELD}))
    obs = sorted(e[1] for e in w.log if e[0] == 'P' and e[2] == 'se')
    if obs != exp or r != ['ok', True]:
        bad.append(['plugins/signature_extensions_in_second_auth_script', [obs, r], exp])
    # compiling is also an execution: comptime blocks (`~! { ... }`) run at compile
    # time with the registries of that moment, so the bytes a source compiles to
    # depend on the *current* registry contents -- for the same text, every time
    for cid in sorted(IDS.values()):
        _pin()
        w.log = []
        src = 'push ~! { push d0 push x%s invoke }' % cid.hex()
        r = _outcome(lambda: T.compile_script(src).hex())
        kind = m.contracts.get(cid)
        if kind is not None and 'CanBeInvoked' in SATISFIES[kind]:
            expr = ['ok', T.compile_script('push x' + kind.encode().hex()).hex()]
        else:
            expr = ['exc', 'ScriptExecutionError']
        if r != expr:
            bad.append(['contracts/comptime_invoke', [cid.hex(), r], expr])
    _pin()
    w.log = []
    r = _outcome(lambda: T.compile_script('push ~! { get_message x00 }').hex())
    obs = sorted(e[1] for e in w.log if e[0] == 'P' and e[2] == 'se')
    if obs != exp:
        bad.append(['plugins/comptime_signature_extensions', [obs, r[0]], exp])
    # transfer-checking contract at ID1
    _pin()
    w.log = []
    r = _outcome(lambda: F.run_script(T.compile_script(
        'push s"proof" push s"src" push d1 push s"dst" push s"cons" push d10 '
        'push x%s check_transfer' % IDS['ID1'].hex()))[1].list())
    kind = m.contracts.get(IDS['ID1'])
    expr = ['ok', [b'\xff']] if kind == 'CT' else ['exc', 'ScriptExecutionError']
    if r != expr:
        bad.append(['contracts/check_transfer', r, expr])
    # interface set through add_contract acceptance on a scratch id
    for kind in sorted(SATISFIES):
        r = _outcome(lambda: F.add_contract(SCRATCH, w.contracts[kind]))
        real('remove_contract', F.remove_contract, SCRATCH)
        expr = ['ok', None] if m.contract_ok(kind) else ['exc', 'ScriptExecutionError']
        if r != expr:
            bad.append(['interfaces/add_contract_acceptance', [kind, r], expr])
    # aliases: alone, and in the syntactic positions where the compiler has to
    # tell an op symbol from an operand (after the size-less PUSH1 / PUSH2 forms,
    # inside a block, between other ops)
    for sp in ('yea', 'Yea', 'YEA', 'twin', 'TWIN'):
        tgt = m.aliases.get(sp.upper())
        for ctx in ALIAS_CONTEXTS:
            r = _outcome(lambda: T.compile_script(ctx % sp).hex())
            if tgt is None:
                ok = r[0] == 'exc'
                expr = ['exc', 'SyntaxError']
            else:
                expr = ['ok', T.compile_script(ctx % tgt).hex()]
                ok = r == expr
            if not ok:
                bad.append(['aliases/compile', [ctx % sp, r], expr])
                break
    w.log = []
    return bad


def _snapshot(cache, contracts, plugins):
    return [copy.deepcopy(cache),
            None if contracts is None else sorted((k.hex(), id(v)) for k, v in contracts.items()),
            None if plugins is None else sorted((k, [id(x) for x in v]) for k, v in plugins.items())]


def do_run(w, op, run):
    m = w.m
    nest = op.get('nest', 'top')
    src = _script_src(op['script'], nest)
    code = T.compile_script(src)
    kwargs = {}
    cache = {'sigfield1': FIELD}
    if op.get('cache'):
        cache.update({'sigfield2': b'two', b'mine': [b'a', b'b'], 'note': ['x', {'y': 1}]})
    if op.get('cache_ts') is not None:
        cache['timestamp'] = op['cache_ts']
        run.probe('caller_cache_with_timestamp')
    if op['script'] == 'cachekey' and b'mine' not in cache:
        cache[b'mine'] = [b'q']
    eff_pl = {k: list(v) for k, v in m.plugins.items()}
    ov_p = None
    if 'ov_plugins' in op:
        ov_p = {SC[s]: [w.plugins[i] for i in lst] for s, lst in op['ov_plugins'].items()}
        for s, lst in op['ov_plugins'].items():
            eff_pl[SC[s]] = list(lst)
        kwargs['plugins'] = ov_p
        run.probe('override_plugins_run')
    eff_c = dict(m.contracts)
    ov_c = None
    if 'ov_contracts' in op:
        ov_c = {IDS[k]: w.contracts[v] for k, v in op['ov_contracts'].items()}
        for k, v in op['ov_contracts'].items():
            eff_c[IDS[k]] = v
        kwargs['contracts'] = ov_c
        run.probe('override_contracts_run')
    fault = op.get('fault')
    if fault:
        w.armed = dict(fault, depth=DEPTH[nest])
    before = _snapshot(cache, ov_c, ov_p)
    _pin()
    w.log = []
    if op.get('flag10_off'):
        run.probe('flag10_off')
        if op['how'] == 'script':
            kwargs['additional_flags'] = {10: False}
        else:
            F.flags[10] = False         # (run_auth_scripts has no per-call flags)
    try:
        res, fired = _do_run_inner(w, op, run, code, cache, kwargs, fault)
    finally:
        F.flags[10] = True
    return _judge_run(w, op, run, res, fired, fault, cache, before, ov_c, ov_p, eff_pl, eff_c)


def _do_run_inner(w, op, run, code, cache, kwargs, fault):
    if op['how'] in ('auth', 'auth_late'):
        scripts = [code, T.compile_script('true')]
        if op['how'] == 'auth_late':
            # the script that uses plugins / contracts is not the first one
            scripts = [T.compile_script('true pop0'), code, T.compile_script('true')]
        try:
            res = ['ok', F.run_auth_scripts(scripts, cache, **kwargs)]
        except BaseException as e:      # noqa
            run.aux_auth_raised += 1
            res = ['exc', type(e).__name__]
    else:
        res = _outcome(lambda: [i.hex() for i in F.run_script(code, cache, **kwargs)[1].list()])
    fired = fault is not None and w.armed is None
    w.armed = None
    return res, fired


def _judge_run(w, op, run, res, fired, fault, cache, before, ov_c, ov_p, eff_pl, eff_c):
    after = _snapshot(cache, ov_c, ov_p)
    run.check('caller_dicts_unmodified', before == after,
              'C19/run/caller_arguments_modified/%s' % (
                  'cache' if before[0] != after[0] else
                  'contracts' if before[1] != after[1] else 'plugins'),
              detail={'op': op})
    log = w.log
    w.log = []
    # the run itself is judged only when no fault / re-entrancy was armed
    if fault is None:
        name = op['script']
        se = sorted(eff_pl.get('signature_extensions', []))
        ct = sorted(eff_pl.get('check_template', []))
        got_se = sorted(e[1] for e in log if e[0] == 'P' and e[2] == 'se')
        got_ct = sorted(e[1] for e in log if e[0] == 'P' and e[2] == 'ct')
        mult = {'msg': 1, 'msg2': 2, 'ct': 1, 'ctsame': 1, 'sign': 2}.get(name)
        if op.get('flag10_off') and name in ('ct', 'ctsame'):
            mult = 0        # CHECK_TEMPLATE alone skips the signature extensions then
        if mult is not None:
            run.check('run_uses_effective_plugins',
                      got_se == sorted(se * mult) and got_ct == (ct if name in ('ct', 'ctsame') else []),
                      'C19/run/plugins_used_mismatch/%s' % (
                          'with_override' if ov_p is not None else 'registry_only'),
                      detail={'op': op, 'got': [got_se, got_ct], 'want': [se * mult, ct]})
        if name.startswith('inv'):
            kind = eff_c.get(IDS['ID' + name[3]])
            want = [['abi', kind]] if kind and 'CanBeInvoked' in SATISFIES[kind] else []
            got = [e for e in log if e[0] == 'abi']
            run.check('run_uses_effective_contracts', got == want,
                      'C19/run/contract_used_mismatch/%s' % (
                          'with_override' if ov_c is not None else 'registry_only'),
                      detail={'op': op, 'got': got, 'want': want})
    return res[0] + ('/fired' if fired else '')


def do_bad(w, call):
    pl = w.plugins
    table = {
        'add_plugin_scope_int': lambda: F.add_plugin(5, pl[0]),
        'add_plugin_not_callable': lambda: F.add_plugin('signature_extensions', 'nope'),
        'remove_plugin_scope_int': lambda: F.remove_plugin(5, pl[0]),
        'reset_plugins_none': lambda: F.reset_plugins(None),
        'add_contract_str_id': lambda: F.add_contract('strid', w.contracts['CIa']),
        'remove_contract_str_id': lambda: F.remove_contract('strid'),
        'add_iface_not_protocol': lambda: F.add_contract_interface(int),
        'remove_iface_not_protocol': lambda: F.remove_contract_interface(object),
        'add_alias_int': lambda: F.add_alias(5, 'OP_TRUE'),
        'add_alias_bad_chars': lambda: F.add_alias('bad-x', 'OP_TRUE'),
        'add_alias_unknown_op': lambda: F.add_alias('yea', 'OP_NOPE'),
    }
    return _outcome(table[call])


def apply_op(w, op, run):
    """apply to the real library and to the model; returns an outcome class"""
    m = w.m
    k = op['op']
    if k in ('add_plugin', 'remove_plugin', 'reset_plugins'):
        scope = SC[op['scope']]
        if k == 'reset_plugins':
            if len(m.plugins.get(scope, [])) >= 2:
                run.probe('reset_with_ge2')
            real('reset_plugins', F.reset_plugins, scope)
            m.reset_plugins(scope)
        elif k == 'add_plugin':
            real('add_plugin', F.add_plugin, scope, w.plugins[op['p']])
            m.add_plugin(scope, op['p'])
        else:
            real('remove_plugin', F.remove_plugin, scope, w.plugins[op['p']])
            m.remove_plugin(scope, op['p'])
        return 'ok'
    if k == 'add_sigext':
        real('add_signature_extension', F.add_signature_extension, w.plugins[op['p']])
        m.add_plugin('signature_extensions', op['p'])
        return 'ok'
    if k == 'remove_sigext':
        real('remove_signature_extension', F.remove_signature_extension, w.plugins[op['p']])
        m.remove_plugin('signature_extensions', op['p'])
        return 'ok'
    if k == 'reset_sigext':
        if len(m.plugins.get('signature_extensions', [])) >= 2:
            run.probe('reset_with_ge2')
        real('reset_signature_extensions', F.reset_signature_extensions)
        m.reset_plugins('signature_extensions')
        return 'ok'
    if k == 'add_contract':
        ok = m.contract_ok(op['c'])
        r = _outcome(lambda: F.add_contract(IDS[op['id']], w.contracts[op['c']]))
        if not ok:
            run.probe('failed_add_contract')
        run.check('add_contract_outcome',
                  r == (['ok', None] if ok else ['exc', 'ScriptExecutionError']),
                  'C19/contracts/add_contract_%s' % ('rejected_valid' if ok else 'accepted_invalid'),
                  detail={'op': op, 'got': r})
        if r[0] == 'ok':
            m.contracts[IDS[op['id']]] = op['c']
        return r[0]
    if k == 'remove_contract':
        real('remove_contract', F.remove_contract, IDS[op['id']])
        m.contracts.pop(IDS[op['id']], None)
        return 'ok'
    if k == 'add_iface':
        real('add_contract_interface', F.add_contract_interface, w.ifaces[op['i']])
        m.ifaces.add(op['i'])
        return 'ok'
    if k == 'remove_iface':
        real('remove_contract_interface', F.remove_contract_interface, w.ifaces[op['i']])
        m.ifaces.discard(op['i'])
        return 'ok'
    if k == 'add_alias':
        a, t = op['alias'].upper(), op['target'].upper()
        ok = a not in m.aliases
        r = _outcome(lambda: F.add_alias(op['alias'], op['target']))
        run.check('add_alias_outcome', (r[0] == 'ok') == ok,
                  'C19/aliases/add_alias_%s' % ('rejected_free' if ok else 'accepted_taken'),
                  detail={'op': op, 'got': r})
        if r[0] == 'ok':
            m.aliases[a] = t
        return r[0]
    if k == 'run':
        return do_run(w, op, run)
    if k == 'compile':
        if op['how'] in ('assemble', 'parse_comptime'):
            run.probe('default_macros_entry_point')
        if op['src'] in (0, 2, 12):
            run.probe('macro_name_collision')
        _pin()
        return _outcome(lambda: _compile(op['how'], SOURCES[op['src']]))[0]
    if k == 'decompile':
        code = T.compile_script(SOURCES[op['src']])
        return _outcome(lambda: P.decompile_script(code))[0]
    if k == 'bad':
        run.probe('invalid_arg_call')
        r = do_bad(w, op['call'])
        run.check('invalid_call_raises', r[0] == 'exc',
                  'C19/invalid_argument_call_accepted/%s' % op['call'], detail={'op': op})
        return r[0]
    raise ValueError(k)


def execute(plan, run):
    reset_world(plan['run_seed'])
    w = World(run)
    base = battery(w)
    bad0 = probe_registry(w)
    if bad0:
        run.violation('pristine', 'C19/pristine_registry_mismatch/' + bad0[0][0],
                      detail={'mismatch': bad0[0]})
        return
    leaky = {'run', 'compile', 'decompile'}
    for i, op in enumerate(plan['steps']):
        shape = w.m.shape()
        out = apply_op(w, op, run)
        run.sched.append([op['op'], op.get('scope') or op.get('how') or op.get('id') or '',
                          bool(op.get('fault'))])
        bad = probe_registry(w)
        run.evals += 1
        tag = op['op'] if op['op'] != 'run' else (
            'run_' + op['fault']['act'] if op.get('fault') else 'run')
        for b in bad[:1]:
            run.violation('registry_matches_model',
                          'C19/%s/mismatch/after_%s' % (b[0], tag), step=i,
                          detail={'op': op, 'observed': b[1], 'expected': b[2]})
        if op['op'] in leaky or i == len(plan['steps']) - 1:
            now = battery(w)
            run.evals += 1
            if now != base:
                d = [x for x, y in zip(now, base) if x != y][0]
                e = [y for x, y in zip(now, base) if x != y][0]
                how = op.get('how', '')
                run.violation('results_independent_of_history',
                              'C19/history_dependence/%s/after_%s' % (
                                  '_'.join(str(x) for x in d[:3] if not isinstance(x, list)),
                                  tag + ('_' + how if how else '')),
                              step=i, detail={'op': op, 'now': d, 'pristine': e})
        run.ev('op', i, op['op'], out, len(bad))
        run.cell(tag, shape, out)
        if run.violations:
            break
    run.fault_free = bool(plan['knobs'].get('fault_free'))
    run.sample = {'steps': plan['steps'][:6], 'n_steps': len(plan['steps']),
                  'final_model_shape': w.m.shape()}
    run.sim_us = 0


def shrink(plan):
    for i, s in enumerate(plan['steps']):
        for key in ('fault', 'ov_plugins', 'ov_contracts', 'cache', 'cache_ts', 'flag10_off', 'nest'):
            if key in s:
                c = copy.deepcopy(plan)
                del c['steps'][i][key]
                yield c
        if s.get('how') in ('auth', 'auth_late'):
            c = copy.deepcopy(plan)
            c['steps'][i]['how'] = 'script'
            yield c
