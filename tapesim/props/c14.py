"""C14 -- delegation locks honour the certificate key, time window and
delegability.  A certificate is a lease; this is lease logic under clock skew,
with issuance as a multi-party history.  DESIGN.md section 3.2."""
import copy

from ..prng import Rng
from ..seams import CLOCK, F, T, reset_world, LIB_ERRORS
from ..core import real
from ..oracle import ambient_plugins
from ..oracle import caching_flags_off
from ..oracle import (ACCEPT, REJECT, EITHER, slack3, slack_tripped_int, validsig,
                      ed_verify, pubkey_of_seed, as_key_arg, PREFIXES, DECORATIONS, SUFFIXES,
                      LOCK_FORMS, LIMITS, in_form, code_of, WRAPS, wrap_lock, malleate, pick_bit,
                      gen_tx_change, change_tx,
                      ARG_STYLES, styled_flags, styled_sigfields, maybe_twice)

PID = 'C14'
ISOLATE = True      # one forked process per run: nothing a run does to process-global
                    # state can reach another run, so every run replays on its own
RUNS = {'quick': 5000, 'thorough': 90000}
STEP_KEYS = ['steps']
BATCH = 8           # runs per forked process (see core.execute_seq)
COMPONENTS = {
    'real': ['Certificate.preimage/pack/unpack', 'make_delegate_key_cert',
             'make_delegate_key_lock', 'make_delegate_key_chain_lock',
             'make_delegate_key_witness', 'make_delegate_key_chain_witness',
             'compile_script', 'run_script', 'run_auth_scripts', 'OP_SPLIT',
             'OP_CHECK_TIMESTAMP(_VERIFY)', 'OP_CHECK_SIG_STACK', 'OP_CHECK_SIG',
             'OP_AND/OP_IF/OP_CALL recursion'],
    'stub': ['root, foreign root, delegates D1..D6, attacker', 'validator clocks',
             'transport corruption / splice / reorder of witness items'],
}
RULE = ('each run = 10-25 spend attempts on delegate-key and delegate-key-chain '
        'locks: certificates (leases) issued along chains of 1-6 delegates, '
        'validated on 1-2 validators with skewed / fractional / stepping (also '
        'between reads) / frozen clocks, under single-bit corruption of every '
        'certificate field and of the final signature, cross-root splices, '
        'dropped / duplicated / reordered links, non-delegable mid-chain links, '
        'wrong signers, cross-lock witnesses and replays after expiry; first '
        'attempt of run i is forced into boundary cell i mod %d; non-trivial = '
        'definite oracle verdict; distinct = distinct tuples (lock, chain length, '
        'attack, window class, slack class, clock fault, verdict)')
ATTACKS = ['none', 'none', 'flip_key', 'flip_begin', 'flip_end', 'flip_can', 'flip_sig',
           'flip_final_sig', 'splice', 'drop', 'dup', 'swap', 'nodelegate', 'wrong_signer',
           'cross_lock', 'bad_flag', 'replay_after_expiry', 'flip_marker', 'foreign_witness',
           'crafted', 'crafted']
WINS = ['begin-1', 'begin', 'end-1', 'end', 'end+1', 'mid']
SLK = ['ok', 'eq', 'minus1']
CF = ['none', 'step_back_between', 'other']
N_CELLS = 2 * 6 * len(WINS) * len(SLK) * len(ATTACKS) * len(CF)
REQUIRED_PROBES = ['t==begin', 't==end-1', 't==end'] + \
    ['chain_len_%d' % k for k in range(1, 7)] + \
    ['nonfinal_nodelegate', 'splice', 'field_flip_key', 'field_flip_begin',
     'field_flip_end', 'field_flip_can', 'field_flip_sig', 'step_between_reads',
     'replay_after_expiry', 'cross_lock_witness', 'cert_roundtrip',
     'honest_accept_single', 'honest_accept_chain', 'threshold_per_call',
     'second_hierarchy', 'foreign_witness_verified_under_own_root_first',
     'default_timestamp', 'crafted_witness', 'witness_with_code', 'witness_ending_in_return',
     'crafted_marker', 'chain_len_long', 'clock_read_failed', 'malleated_signature',
     'transaction_changed_after_signing', 'recut_certificate', 'key_delegates_to_itself', 'lock_form_bytes', 'lock_form_resrc', 'lock_form_redec', 'explicit_limits'] + \
    ['lock_wrapped_' + x for x in sorted(set(WRAPS) - {'none'})]
NAMES = ['K', 'Kp'] + ['D%d' % i for i in range(1, 7)] + ['F%d' % i for i in range(1, 7)]
FIELD_RANGE = {'key': (0, 32), 'begin': (32, 36), 'end': (36, 40), 'can': (40, 41),
               'sig': (41, 105)}
EDGE_TS = [0, 1, 127, 128, 255, 256, 2 ** 15 - 1, 2 ** 15, 2 ** 23 - 1, 2 ** 23,
           2 ** 31 - 2, 2 ** 31 - 1]


MARKERS = ['0001', '00ff', '0100', 'ff00', '000000', '01', '80', '00ff00', '', '', '00' * 40 + '01',
           'ffff']


def dn(pre, j):
    """name of the j-th delegate (j >= 1) of a hierarchy: six keys per hierarchy, used
    again from the seventh link on (a long chain may come back to an earlier key)"""
    return '%s%d' % (pre, (j - 1) % 6 + 1)


LONG = [64, 65, 100, 120]       # links; the default callstack_limit of 128 covers them
LONG_ATTACKS = ('none', 'flip_final_sig', 'flip_marker', 'drop', 'dup', 'nodelegate',
                'bad_flag', 'crafted')


def self_delegating(step, k, run):
    """One key in two roles: link j of the chain is a certificate a key issues to
    itself (the root key too); the next link is then issued by that same key.  Applied
    to whole runs (every 13th), at execution time, so that no plan changes."""
    if (step.get('attack') or {}).get('kind') in ('splice', 'foreign_witness') or \
            step['signer'] != step['chain'][-1]['subject']:
        return step
    st = copy.deepcopy(step)
    ch = st['chain']
    j = k % len(ch)
    ch[j]['subject'] = ch[j]['issuer']
    if j + 1 < len(ch):
        ch[j + 1]['issuer'] = ch[j]['subject']
    else:
        st['signer'] = ch[j]['subject']
    run.probe('key_delegates_to_itself')
    return st


def decode_cell(i):
    i %= N_CELLS
    lock = ['single', 'chain'][i % 2]; i //= 2
    ln = 1 + i % 6; i //= 6
    win = WINS[i % len(WINS)]; i //= len(WINS)
    slk = SLK[i % len(SLK)]; i //= len(SLK)
    atk = ATTACKS[i % len(ATTACKS)]; i //= len(ATTACKS)
    cf = CF[i % len(CF)]
    return lock, ln, win, slk, atk, cf


def _local_s(c, at_us):
    return (c['epoch0_s'] * 1_000_000 + c['offset_us'] + c.get('frac_us', 0) + at_us +
            (at_us * c['drift_ppm']) // 1_000_000) // 1_000_000


def clampts(x):
    return max(0, min(2 ** 31 - 1, x))


def gen_step(rng, cell, clocks, vname, at_us, thr, fault_free):
    lock, ln, win, slk, atk, cf = cell
    if lock == 'single':
        ln = 1
    elif rng.chance(1, 150):
        # a long chain: one call level per certificate, within the default limits
        ln = rng.choice(LONG)
        if not (atk in LONG_ATTACKS or atk.startswith('flip_')):
            atk = 'none'
    now = _local_s(clocks[vname], at_us)
    # t relative to the validator clock and the slack
    if slk == 'ok' or thr <= 0:
        t = now - rng.choice([0, 0, 1, 30, 3600])
    elif slk == 'eq':
        t = now + thr
    else:
        t = now + thr - 1
    t = clampts(t)
    chain = []
    # two hierarchies are in honest use on the same validators: root K with
    # delegates D1.., and root Kp with delegates F1..
    root = 'K' if rng.chance(3, 4) else 'Kp'
    pre = 'D' if root == 'K' else 'F'
    target = rng.below(ln)
    for j in range(ln):
        b = t - rng.choice([0, 1, 100, 10 ** 5])
        e = t + rng.choice([1, 2, 60, 3600, 10 ** 6])
        if j == target:
            w = rng.choice([1, 2, 10, 3600])
            if win == 'begin-1':
                b, e = t + 1, t + 1 + w
            elif win == 'begin':
                b, e = t, t + w
            elif win == 'end-1':
                b, e = t + 1 - w, t + 1
            elif win == 'end':
                b, e = t - w, t
            elif win == 'end+1':
                b, e = t - 1 - w, t - 1
        issuer = root if j == 0 else dn(pre, j)
        chain.append({'issuer': issuer, 'subject': dn(pre, j + 1),
                      'begin': clampts(b), 'end': clampts(e),
                      'can': True if j < ln - 1 else rng.chance(1, 2)})
    step = {'at_us': at_us, 'validator': vname, 'lock': lock, 'witness': lock,
            'root': root, 'via': rng.choice(['global', 'global', 'additional']),
            'gthr': rng.choice([60, 0, 1, 10 ** 6]), 'default_t': rng.chance(1, 8),
            'keys': rng.choice(['bytes', 'bytes', 'object']), 'prefix': rng.choice(PREFIXES),
            'cert_as': rng.choice(['bytes', 'object']), 'decor': rng.choice(DECORATIONS), 'suffix': rng.choice(SUFFIXES),
            'form': rng.choice(LOCK_FORMS), 'limits': rng.below(len(LIMITS)),
            'wrap': rng.choice(WRAPS), 'style': rng.choice(ARG_STYLES),
            'tx_change': gen_tx_change(rng) if rng.chance(1, 10) else None,
            'twice': rng.choice(['', '', '', 'build', 'validate', 'build+validate']),
            't': t, 'thr': thr, 'chain': chain, 'signer': dn(pre, ln),
            'allowed': rng.choice(['00', '00', '01', '03', '80', 'c1']), 'flag': '00',
            'sigfields': {'sigfield%d' % k: rng.bytes(rng.choice([0, 1, 16, 64, 64, 255, 256, 300])).hex()
                          for k in rng.sample(range(1, 9), rng.rng(1, 3))},
            'attack': None, 'faults': []}
    if rng.chance(1, 3):
        step['flag'] = step['allowed']
    a = atk
    if a.startswith('flip_') and a not in ('flip_final_sig', 'flip_marker'):
        field = a[5:]
        lo, hi = FIELD_RANGE[field]
        step['attack'] = {'kind': 'flip', 'cert': rng.below(ln), 'field': field,
                          'bit': pick_bit(rng, (hi - lo) * 8),
                          'malleate': field == 'sig' and rng.chance(1, 4)}
    elif a == 'flip_final_sig':
        step['attack'] = {'kind': 'flip_final_sig', 'bit': pick_bit(rng, 512),
                          'malleate': rng.chance(1, 4)}
    elif a == 'flip_marker' and lock == 'chain':
        step['attack'] = {'kind': 'flip_marker', 'link': rng.below(ln), 'bit': rng.below(8)}
        if rng.chance(1, 3):
            # a marker of the attacker's own making: longer or shorter than one byte
            step['attack'] = {'kind': 'marker', 'link': rng.below(ln), 'val': rng.choice(MARKERS)}
    elif a == 'splice':
        step['attack'] = {'kind': 'splice', 'cert': rng.below(ln)}
    elif a == 'foreign_witness':
        step['attack'] = {'kind': 'foreign_witness'}
    elif a == 'crafted' and rng.chance(1, 4):
        # the root key once signed, for another purpose, a message that *ends in* a
        # certificate preimage naming the attacker's key; the attacker re-cuts that
        # signature into an over-long "certificate"
        step['attack'] = {'kind': 'recut', 'x': rng.bytes(rng.choice([1, 1, 9, 64])).hex()}
    elif a == 'crafted':
        # the attacker does not tamper with a builder's witness but composes one of his
        # own from observed material: valid certificates, the signature, markers, junk
        step['attack'] = {'kind': 'crafted', 'picks': [rng.below(64) for _ in range(rng.rng(1, 6))],
                          'root_cert_on_top': rng.chance(2, 3)}
    elif a in ('drop', 'dup') and lock == 'chain':
        step['attack'] = {'kind': a, 'cert': rng.below(ln)}
    elif a == 'swap' and lock == 'chain' and ln >= 2:
        x = rng.below(ln - 1)
        step['attack'] = {'kind': 'swap', 'a': x, 'b': x + 1}
    elif a == 'nodelegate' and ln >= 2:
        j = rng.below(ln - 1)
        chain[j]['can'] = False
        if rng.chance(1, 2):
            # ... and the holder of the terminal certificate tries markers no builder emits
            step['attack'] = {'kind': 'marker', 'link': j, 'val': rng.choice(MARKERS)}
    elif a == 'wrong_signer':
        step['signer'] = rng.choice([dn(pre, k) for k in range(1, 7) if k != ln] + [root])
    elif a == 'cross_lock':
        step['witness'] = 'chain' if lock == 'single' else 'single'
    elif a == 'bad_flag':
        # a signature flag the lock does not allow: any one of the eight bits
        free = [b for b in range(8) if not (int(step['allowed'], 16) >> b) & 1]
        step['flag'] = '%02x' % ((1 << rng.choice(free)) |
                                 (int(step['allowed'], 16) if rng.chance(1, 3) else 0))
    if not fault_free and rng.chance(1, 15):
        # the clock system call itself fails, once, during the validation
        step['faults'].append({'at_read': rng.below(2 * ln + 1), 'kind': 'fail'})
    if not fault_free:
        if cf == 'step_back_between':
            step['faults'].append({'at_read': rng.rng(1, 2 * ln), 'kind': 'step',
                                   'delta_us': -rng.choice([1, 2, 20, max(thr, 1), 1000]) * 1_000_000})
        elif cf == 'other':
            r = rng.below(3)
            if r == 0:
                step['faults'].append({'at_read': rng.below(3), 'kind': 'step',
                                       'delta_us': rng.choice([1, 2, max(thr, 1), 1000]) * 1_000_000})
            elif r == 1:
                step['faults'].append({'at_read': rng.below(2), 'kind': 'freeze'})
            else:
                step['faults'].append({'at_read': 0, 'kind': 'step',
                                       'delta_us': -rng.choice([1, 61, 3600]) * 1_000_000})
    return step


def gen_plan(run_seed, idx, tier):
    rng = Rng(run_seed)
    fault_free = (idx % 4 == 3)
    small = rng.chance(1, 3)
    ep = rng.choice(EDGE_TS[3:]) if small else rng.choice([1_700_000_000, 1_000_000, 2 ** 31 - 10 ** 6])
    regime = 'integer' if fault_free else rng.choice(['integer', 'fractional'])

    def clk():
        return {'epoch0_s': ep,
                'offset_us': 0 if fault_free else rng.choice(
                    [0, 0, 1_000_000, -1_000_000, 59_000_000, -61_000_000]),
                'drift_ppm': 0 if fault_free else rng.choice([0, 0, 100, -100]),
                'frac_us': rng.rng(1, 999_999) if regime == 'fractional' else 0}
    clocks = {'V0': clk()}
    if rng.chance(1, 2):
        clocks['V1'] = clk()
    thr = rng.choice([60, 60, 1, 2, 0, -1, 3600])
    plan = {'property': PID, 'run_seed': run_seed, 'idx': idx,
            'knobs': {'regime': regime, 'fault_free': fault_free,
                      'latency_us': 0 if fault_free else rng.choice([0, 0, 1, 400_000, 1_000_000])},
            'keys': {n: rng.bytes(32).hex() for n in NAMES},
            'clocks': clocks, 'steps': []}
    at = 0
    vn = sorted(clocks)
    n = rng.rng(10, 25)
    for s in range(n):
        at += rng.choice([1, 10, 60, 3600]) * 1_000_000
        cell = decode_cell(idx) if s == 0 else decode_cell(rng.below(N_CELLS))
        step = gen_step(rng, cell, clocks, rng.choice(vn), at, thr, fault_free)
        plan['steps'].append(step)
        if cell[4] == 'replay_after_expiry':
            # the same witness again once every lease has run out
            late = copy.deepcopy(step)
            end = max(c['end'] for c in step['chain'])
            late['t'] = clampts(end + rng.choice([0, 1, 3600]))
            late['replay'] = True
            late['faults'] = []
            at += rng.choice([10, 3600]) * 1_000_000
            late['at_us'] = at
            plan['steps'].append(late)
    return plan


# ------------------------------------------------------------------ model

def model_cert(cert, signer_pk, t):
    """clock-free clauses for one certificate; returns reason or None"""
    if len(cert) != 105:
        return 'cert_length'
    begin = int.from_bytes(cert[32:36], 'big')
    end = int.from_bytes(cert[36:40], 'big')
    if t < begin:
        return 'cert_not_yet_valid'
    if t >= end:
        return 'cert_expired'
    if not ed_verify(signer_pk, cert[:41], cert[41:]):
        return 'cert_bad_issuer_sig'
    return None


def model(lock, items, root_pk, t, sf, allowed, reads, thr):
    """returns (verdict, reason)"""
    s3 = slack3(t, reads, thr)
    if lock == 'single':
        if len(items) != 2:
            return REJECT, 'item_count'
        cert, sig = items[-1], items[-2]
        why = model_cert(cert, root_pk, t)
        if why:
            return REJECT, why
        if not validsig(sig, cert[:32], sf, allowed):
            return REJECT, 'final_sig_invalid'
    else:
        st = list(items)
        r = root_pk
        depth = 0
        while True:
            depth += 1
            if depth > 120:
                return EITHER, 'depth'      # callstack limit territory, not this property
            if not st:
                return REJECT, 'missing_cert'
            cert = st.pop()
            why = model_cert(cert, r, t)
            if why:
                return REJECT, why
            if not st:
                return REJECT, 'missing_marker'
            m = st.pop()
            c = cert[40:41]
            n = max(len(c), len(m))
            cp, mp = c.ljust(n, b'\x00'), m.ljust(n, b'\x00')
            if any(x & y for x, y in zip(cp, mp)):
                r = cert[:32]
                continue
            if not st:
                return REJECT, 'missing_final_sig'
            sig = st.pop()
            if not validsig(sig, cert[:32], sf, allowed):
                return REJECT, 'final_sig_invalid'
            if st:
                return REJECT, 'leftover_items'
            break
    if s3 is True:
        return ACCEPT, 'ok'
    if s3 is False:
        return REJECT, 'slack'
    return EITHER, 'slack_reads_disagree'


# ------------------------------------------------------------------ execute

def execute(plan, run):
    reset_world(plan['run_seed'])
    if plan['idx'] % 7 == 3:
        # every seventh run: some of the cache-this-value flags are switched off
        if caching_flags_off(plan['run_seed']):
            run.probe('caching_flags_off')
    if plan['idx'] % 5 == 2:
        # every fifth run: unrelated do-nothing plugins are registered in this process
        ambient_plugins()
        run.probe('ambient_plugins')
    kn = plan['knobs']
    frac = kn['regime'] == 'fractional'
    for name in sorted(plan['clocks']):
        c = plan['clocks'][name]
        CLOCK.add_node(name, epoch0_s=c['epoch0_s'], offset_us=c['offset_us'] + c.get('frac_us', 0),
                       drift_ppm=c['drift_ppm'], frac=frac)
    keys = {n: (bytes.fromhex(s), pubkey_of_seed(bytes.fromhex(s)))
            for n, s in plan['keys'].items()}
    certs_cache = {}

    def issue(issuer, subject, b, e, can):
        k = (issuer, subject, b, e, can)
        if k not in certs_cache:
            CLOCK.latency_us = 0
            cert = real('make_delegate_key_cert', T.make_delegate_key_cert,
                        keys[issuer][0], keys[subject][1], b, e, can)
            packed = real('Certificate.pack', cert.pack)
            back = real('Certificate.unpack', T.Certificate.unpack, packed)
            run.probe('cert_roundtrip')
            run.check('cert_roundtrip', back == cert and back.pack() == packed and len(packed) == 105,
                      'C14/certificate/roundtrip_mismatch', detail={'cert': list(k)})
            # what the certificate says, independently of pack(): the model's layout
            want = keys[subject][1] + b.to_bytes(4, 'big') + e.to_bytes(4, 'big') + \
                (b'\xff' if can else b'\x00')
            run.check('cert_layout', packed[:41] == want and
                      ed_verify(keys[issuer][1], want, packed[41:]),
                      'C14/certificate/layout_or_signature_wrong', detail={'cert': list(k)})
            certs_cache[k] = (cert, packed)
        return certs_cache[k]

    for i, step in enumerate(plan['steps']):
        CLOCK.tau = max(CLOCK.tau, step['at_us'])
        if plan['idx'] % 13 == 7:
            step = self_delegating(step, plan['idx'] // 13 + i, run)
        ln = len(step['chain'])
        sf = {k: bytes.fromhex(v) for k, v in step['sigfields'].items()}
        root = step.get('root', 'K')
        pre = 'D' if root == 'K' else 'F'
        root_pk = keys[root][1]
        packed = [issue(c['issuer'], c['subject'], c['begin'], c['end'], c['can'])[1]
                  for c in step['chain']]
        signer = as_key_arg('prv', keys[step['signer']][0], step.get('keys', 'bytes'))
        if step.get('cert_as') == 'object':
            # the witness builders take certificates as bytes or as Certificate objects
            packed_arg = [real('Certificate.unpack', T.Certificate.unpack, x) for x in packed]
        else:
            packed_arg = packed
        CLOCK.latency_us = 0
        run.cur_step = i
        style = step.get('style', 'plain')
        tw_b = 'build' in step.get('twice', '')
        sf_arg = styled_sigfields(sf, style)
        if style != 'plain':
            run.probe('argument_style_' + style)
        if step.get('twice'):
            run.probe('called_twice_' + step['twice'])
        if step['witness'] == 'single':
            w = real('make_delegate_key_witness', maybe_twice, tw_b, T.make_delegate_key_witness,
                     signer, packed_arg[-1], sf_arg, styled_flags(step['flag'], style),
                     step.get('prefix', ''))
        else:
            chain_arg = list(reversed(packed_arg))
            w = real('make_delegate_key_chain_witness', maybe_twice, tw_b,
                     T.make_delegate_key_chain_witness,
                     signer, chain_arg, sf_arg, styled_flags(step['flag'], style),
                     step.get('prefix', ''))
        _, stk, _ = real('run_script(witness)', F.run_script, w.bytes)
        items = stk.list()
        # structural expectation on the builder's own output
        atk = step.get('attack')
        if step['witness'] == 'chain' and not (len(items) == 2 * ln + 1 and items[-1] == packed[0]):
            # the transport attacks address items by position; the property does not
            # prescribe a witness layout, so an unfamiliar one is not a verdict: the
            # attempt is then made untampered (a wrong builder is caught by the
            # honest-flow oracle below)
            run.probe('unfamiliar_witness_layout')
            atk = None
        akind = 'none'
        if atk:
            akind = atk['kind']
            items = attack(items, atk, step, keys, run)
            if all(items):
                src = '\n'.join('push x' + it.hex() for it in items)
                w = T.Script.from_src(src)
            else:
                # (an empty item has no `push x` spelling: OP_PUSH1 with length 0)
                run.probe('empty_item_in_witness')
                w = T.Script('# crafted witness #', b''.join(
                    bytes([F.opcodes_inverse['OP_PUSH1'][0], len(it)]) + it if len(it) < 256 else
                    T.compile_script('push x' + it.hex()) for it in items))
        lock = real('make_delegate_key_lock', maybe_twice, tw_b,
                    T.make_delegate_key_lock if step['lock'] == 'single'
                    else T.make_delegate_key_chain_lock,
                    as_key_arg('pub', root_pk, step.get('keys', 'bytes')),
                    styled_flags(step['allowed'], style))
        if step.get('wrap', 'none') != 'none':
            # the lock is committed to by a wrapper; the reveal is appended to the witness
            run.probe('lock_wrapped_' + step['wrap'])
            lock, reveal = real('wrap_lock(' + step['wrap'] + ')', wrap_lock, lock, step['wrap'])
            w = T.Script('# witness + reveal #', w.bytes + reveal)
        if step.get('decor'):
            run.probe('witness_with_code')
            w = T.Script('# decorated witness #', T.compile_script(step['decor']) + w.bytes)
        if step.get('suffix'):
            run.probe('witness_ending_in_return')
            w = T.Script('# witness + return #', w.bytes + T.compile_script(step['suffix']))
            items = items + ([b'\xff'] if step['suffix'].startswith('true') else
                             [b'\x00'] if step['suffix'].startswith('false') else [])
        if step.get('tx_change'):
            # the validator's transaction differs from the one the delegate signed
            run.probe('transaction_changed_after_signing')
            sf = change_tx(sf, step['tx_change'])
            sf_arg = styled_sigfields(sf, style)
        cache_in = dict(sf_arg) if step.get('default_t') else {**sf_arg, 'timestamp': step['t']}
        lockf = real('lock in form ' + step.get('form', 'object'), in_form, lock,
                     step.get('form', 'object'))
        lim = LIMITS[step.get('limits', 0)]
        if step.get('form', 'object') != 'object':
            run.probe('lock_form_' + step['form'])
        if lim:
            run.probe('explicit_limits')
        CLOCK.latency_us = kn['latency_us']
        scripts = [w, lockf]
        if 'validate' in step.get('twice', ''):
            # a first validation (say, on arrival) with the very same objects; its
            # verdict is not judged -- the second one below is
            CLOCK.begin_call(step['validator'], [])
            try:
                F.flags['ts_threshold'] = step['thr']
                F.run_auth_scripts(scripts, cache_in, **lim)
            except BaseException:       # noqa
                pass
            finally:
                CLOCK.end_call()
        CLOCK.begin_call(step['validator'], step['faults'])
        try:
            if step.get('via') == 'additional' and not step.get('suffix'):
                # the verifier supplies its slack threshold per call (never for a witness
                # ending in OP_RETURN: concatenating it with the lock would be the
                # concatenation attack run_auth_scripts exists to prevent)
                run.probe('threshold_per_call')
                # ... while the process-wide default says something else
                F.flags['ts_threshold'] = step.get('gthr', 60)
                try:
                    _, stk2, _ = F.run_script(w.bytes + code_of(lockf), cache_in,
                                              additional_flags={'ts_threshold': step['thr']},
                                              **lim)
                    r = stk2.list() == [b'\xff']
                except LIB_ERRORS:
                    r = False
            elif plan['idx'] % 8 == 6 and not step.get('suffix'):
                # the deprecated single-script entry point, documented as maintained:
                # witness and lock as one script (its DeprecationWarning is expected)
                import warnings
                run.probe('deprecated_run_auth_script')
                F.flags['ts_threshold'] = step['thr']
                try:
                    with warnings.catch_warnings():
                        warnings.simplefilter('ignore', DeprecationWarning)
                        r = F.run_auth_script(w.bytes + code_of(lockf), cache_in, **lim)
                except BaseException as e:      # noqa
                    run.aux_auth_raised += 1
                    r = 'raised_' + type(e).__name__
            else:
                F.flags['ts_threshold'] = step['thr']
                try:
                    r = F.run_auth_scripts(scripts, cache_in, **lim)
                except BaseException as e:      # noqa
                    run.aux_auth_raised += 1
                    r = 'raised_' + type(e).__name__
        finally:
            reads = CLOCK.end_call()
        obs = ACCEPT if r is True else REJECT if r is False else 'BAD:' + str(r)
        clock_failed = bool(CLOCK.last_call.get('would'))
        if clock_failed:
            # judged with the value the failed read would have returned; the validation
            # may fail as a whole, but must not accept what that window excludes
            run.probe('clock_read_failed')
            reads = CLOCK.last_call['all']
        if step.get('default_t'):
            # no timestamp supplied: the execution timestamp is the validator's clock
            run.probe('default_timestamp')
            step = dict(step, t=int(reads[0]) if reads else 0)
        t = step['t']
        mdl, why = model(step['lock'], items, root_pk, t, sf, int(step['allowed'], 16),
                         reads, step['thr'])
        if step.get('default_t'):
            # any read of this call may be the one the default timestamp was taken from
            for c in sorted({int(r) for r in reads}):
                m2, _ = model(step['lock'], items, root_pk, c, sf, int(step['allowed'], 16),
                              reads, step['thr'])
                if m2 != mdl:
                    mdl, why = EITHER, 'default_timestamp_reads_disagree'
        if (step.get('suffix') or clock_failed) and mdl == ACCEPT:
            mdl = EITHER        # soundness only (see oracle.SUFFIXES)

        def sig_fn(o, m, step=step, why=why, reads=reads, t=t):
            if o.startswith('BAD'):
                return 'C14/%s_lock/run_auth_scripts_%s' % (step['lock'], o[4:])
            return 'C14/%s_lock/%s/%s/%s' % (
                step['lock'], 'accepted' if o == ACCEPT else 'rejected', why,
                slack_tripped_int(t, reads, step['thr']))
        run.judge('lease', obs, mdl, sig_fn, step=i,
                  detail={'reads': reads, 't': t, 'thr': step['thr'], 'chain': step['chain'],
                          'attack': atk, 'why': why, 'lock': step['lock'],
                          'witness': step['witness'], 'signer': step['signer']})
        # who-level oracle for honest attempts: completeness of the builders
        t_ambiguous = bool(step.get('default_t')) and len({int(r) for r in reads}) > 1
        honest = (not atk and not step.get('suffix') and not clock_failed and not t_ambiguous and
                  not step.get('tx_change') and
                  step['witness'] == step['lock'] and
                  step['signer'] == step['chain'][-1]['subject'] and
                  all(c['can'] for c in step['chain'][:-1]) and
                  all(c['begin'] <= t < c['end'] for c in step['chain']) and
                  (int(step['flag'], 16) & ~int(step['allowed'], 16) & 0xff) == 0 and
                  all(c['issuer'] == (root if j == 0 else step['chain'][j - 1]['subject'])
                      for j, c in enumerate(step['chain'])))
        if honest:
            s3 = slack3(t, reads, step['thr'])
            want = ACCEPT if s3 is True else REJECT if s3 is False else EITHER
            run.judge('honest_delegate_accepted', obs, want,
                      lambda o, m: 'C14/%s_lock/builder_flow/honest_chain_len_%d_%s' % (
                          step['lock'], ln, 'accepted' if o == ACCEPT else 'rejected'),
                      step=i, detail={'step': step, 'reads': reads})
            if obs == ACCEPT:
                run.probe('honest_accept_' + step['lock'])
        elif obs == ACCEPT and not atk and not step.get('suffix') and not step.get('tx_change') \
                and not t_ambiguous:
            # anything accepted without transport tampering must be an honest chain
            # whose leases all contain t (F3 is the recorded exception, via `lease`)
            inwin = all(c['begin'] <= t < c['end'] for c in step['chain'])
            run.check('only_honest_accepted', not inwin,
                      'C14/%s_lock/builder_flow/dishonest_attempt_accepted/%s' % (
                          step['lock'],
                          'wrong_signer' if step['signer'] != step['chain'][-1]['subject'] else
                          'cross_lock' if step['witness'] != step['lock'] else
                          'nodelegate' if not all(c['can'] for c in step['chain'][:-1]) else
                          'flag' if (int(step['flag'], 16) & ~int(step['allowed'], 16)) else 'other'),
                      step=i, detail={'step': step})
        run.sched.append([step['lock'], ln, akind, step['validator'], len(reads),
                          [f['kind'] for f in step['faults']]])
        run.ev('att', i, step['lock'], ln, akind, t, reads, obs, mdl, why)
        # probes and cells
        for c in step['chain']:
            if t == c['begin']:
                run.probe('t==begin')
            if t == c['end'] - 1:
                run.probe('t==end-1')
            if t == c['end']:
                run.probe('t==end')
        run.probe('chain_len_%d' % ln if ln <= 6 else 'chain_len_long')
        if root == 'Kp':
            run.probe('second_hierarchy')
        if not all(c['can'] for c in step['chain'][:-1]):
            run.probe('nonfinal_nodelegate')
        if step['witness'] != step['lock']:
            run.probe('cross_lock_witness')
        if step.get('replay'):
            run.probe('replay_after_expiry')
        if mdl != EITHER:
            fcls = 'none'
            for f in step['faults']:
                fcls = f['kind'] + ('@%d' % min(f['at_read'], 3))
            run.cell(step['lock'], ln, akind + ':' + (atk or {}).get('field', ''), why,
                     slack_tripped_int(t, reads, step['thr'])[6:], fcls, obs)
        if run.sample is None and i == 0:
            run.sample = {'step': step, 'reads': reads, 'observed': obs, 'model': mdl, 'why': why}
    for k, v in CLOCK.fired.items():
        run.fault(k, v)
        if k == 'step_between_reads':
            run.probe('step_between_reads', v)
    run.fault_free = bool(kn.get('fault_free'))
    run.sim_us = CLOCK.tau


def attack(items, atk, step, keys, run):
    """transport-level tampering with the witness items (bottom -> top)"""
    items = list(items)
    k = atk['kind']
    ln = len(step['chain'])
    chainw = step['witness'] == 'chain'

    def cert_pos(j):
        # position in items of the certificate of link j (0 = issued by the root)
        return (len(items) - 1 - 2 * j) if chainw else len(items) - 1
    run.fault('attack_' + k)
    if k == 'flip':
        pos = cert_pos(atk['cert'] if chainw else 0)
        lo, _ = FIELD_RANGE[atk['field']]
        b = bytearray(items[pos])
        bit = lo * 8 + atk['bit']
        b[bit // 8] ^= 1 << (bit % 8)
        items[pos] = bytes(b)
        if atk.get('malleate') and len(items[pos]) == 105:
            # not a flipped bit but the issuer's signature with S + L for S
            c0 = items[pos]
            b[bit // 8] ^= 1 << (bit % 8)
            items[pos] = c0[:41] + malleate(bytes(b)[41:])
            run.probe('malleated_signature')
        run.probe('field_flip_' + atk['field'])
    elif k == 'flip_final_sig':
        b = bytearray(items[0])
        bit = atk['bit'] % (len(b) * 8)
        b[bit // 8] ^= 1 << (bit % 8)
        if atk.get('malleate') and len(items[0]) in (64, 65):
            items[0] = malleate(items[0])       # (R, S + L) instead of a flipped bit
            run.probe('malleated_signature')
        else:
            items[0] = bytes(b)
        run.probe('field_flip_final_sig')
    elif k == 'recut':
        import nacl.bindings as nb
        oroot = 'Kp' if step.get('root', 'K') == 'K' else 'K'
        a_seed, a_pk = keys[oroot]
        t = step['t'] if step['t'] is not None else 0
        pre = a_pk + clampts(t - 10).to_bytes(4, 'big') + clampts(t + 1000).to_bytes(4, 'big') + b'\x00'
        x = bytes.fromhex(atk['x'])
        _, root_sk = nb.crypto_sign_seed_keypair(keys[step.get('root', 'K')][0])
        sigma = nb.crypto_sign(x + pre, root_sk)[:64]      # what the root key did sign
        blob = pre + sigma + x
        sfv = {kk: bytes.fromhex(v) for kk, v in step['sigfields'].items()}
        _, a_sk = nb.crypto_sign_seed_keypair(a_seed)
        from ..oracle import sig_message
        final = nb.crypto_sign(sig_message(sfv, 0), a_sk)[:64]
        items = [final, blob] if not chainw else [final, b'\x00', blob]
        run.probe('recut_certificate')
    elif k == 'marker' and chainw:
        items[cert_pos(atk['link']) - 1] = bytes.fromhex(atk['val'])
        run.probe('crafted_marker')
    elif k == 'flip_marker' and chainw:
        pos = cert_pos(atk['link']) - 1
        b = bytearray(items[pos])
        b[0] ^= 1 << atk['bit']
        items[pos] = bytes(b)
    elif k == 'splice':
        j = atk['cert'] if chainw else ln - 1
        c = step['chain'][j]
        oroot, opre = ('Kp', 'F') if step.get('root', 'K') == 'K' else ('K', 'D')
        issuer = oroot if j == 0 else dn(opre, j)
        forged = T.make_delegate_key_cert(keys[issuer][0], keys[c['subject']][1],
                                          c['begin'], c['end'], c['can']).pack()
        items[cert_pos(j if chainw else 0)] = forged
        run.probe('splice')
    elif k == 'crafted':
        sig = items[0]
        certs = [it for it in items if len(it) == 105]
        pool = certs + [sig, b'\xff', b'\x00', b'\xff', b'j', b'junk' * 16, b'\x07' * 105,
                        sig[:64], certs[-1][:104] if certs else b'x']
        crafted = [pool[p % len(pool)] for p in atk['picks']]
        if atk.get('root_cert_on_top') and certs:
            # the certificate issued by the root is the last 105-byte item of a
            # builder witness: with it on top the first frame of the lock passes
            crafted.append(certs[-1])
        items = crafted
        run.probe('crafted_witness')
    elif k == 'foreign_witness':
        oroot, opre = ('Kp', 'F') if step.get('root', 'K') == 'K' else ('K', 'D')
        sf = {kk: bytes.fromhex(v) for kk, v in step['sigfields'].items()}
        packed = []
        for j, c in enumerate(step['chain']):
            iss = oroot if j == 0 else dn(opre, j)
            packed.append(T.make_delegate_key_cert(keys[iss][0], keys[dn(opre, j + 1)][1],
                                                   c['begin'], c['end'], c['can']).pack())
        signer = keys[dn(opre, ln)][0]
        if chainw:
            w2 = T.make_delegate_key_chain_witness(signer, list(reversed(packed)), sf, step['flag'])
            lock2 = T.make_delegate_key_chain_lock(keys[oroot][1], step['allowed'])
        else:
            w2 = T.make_delegate_key_witness(signer, packed[-1], sf, step['flag'])
            lock2 = T.make_delegate_key_lock(keys[oroot][1], step['allowed'])
        # honest use under its own root first (same validator process) ...
        F.flags['ts_threshold'] = 0
        first = F.run_auth_scripts([w2, lock2], {**sf, 'timestamp': step['t']})
        if first is True:
            run.probe('foreign_witness_verified_under_own_root_first')
        # ... then the very same witness is presented on the other root's lock
        _, stk, _ = F.run_script(w2.bytes)
        items = stk.list()
    elif k == 'drop' and chainw:
        pos = cert_pos(atk['cert'])
        del items[pos - 1:pos + 1]
    elif k == 'dup' and chainw:
        pos = cert_pos(atk['cert'])
        items[pos - 1:pos + 1] = items[pos - 1:pos + 1] * 2
    elif k == 'swap' and chainw:
        pa, pb = cert_pos(atk['a']), cert_pos(atk['b'])
        items[pa], items[pb] = items[pb], items[pa]
    return items


def shrink(plan):
    p = plan
    for name in sorted(p['clocks']):
        if not any(s['validator'] == name for s in p['steps']) and len(p['clocks']) > 1:
            c = copy.deepcopy(p)
            del c['clocks'][name]
            yield c
    if p['knobs']['latency_us']:
        c = copy.deepcopy(p)
        c['knobs']['latency_us'] = 0
        yield c
    for i, s in enumerate(p['steps']):
        if s.get('attack'):
            c = copy.deepcopy(p)
            c['steps'][i]['attack'] = None
            yield c
        for j in range(len(s['faults'])):
            c = copy.deepcopy(p)
            del c['steps'][i]['faults'][j]
            yield c
        if len(s['chain']) > 1 and s['lock'] == 'chain' and not s.get('attack'):
            c = copy.deepcopy(p)
            c['steps'][i]['chain'] = s['chain'][:-1]
            if s['signer'][1:] == str(len(s['chain'])):
                c['steps'][i]['signer'] = s['signer'][0] + str(len(s['chain']) - 1)
            yield c
        if len(s['sigfields']) > 1:
            c = copy.deepcopy(p)
            k0 = sorted(s['sigfields'])[0]
            c['steps'][i]['sigfields'] = {k0: s['sigfields'][k0]}
            yield c
    for name in sorted(p['clocks']):
        for key in ('drift_ppm', 'frac_us', 'offset_us'):
            if p['clocks'][name].get(key):
                c = copy.deepcopy(p)
                c['clocks'][name][key] = 0
                yield c
