#!/venv/bin/python
"""Driver: ./check <property> [--tier quick|thorough] [--replay FILE]
                 [--digest I,J,..] | --selftest determinism|mutants

exit 0: property held on everything explored (KNOWN-FINDING lines allowed)
exit 1: `VIOLATION property=<id> replay=<path>`
exit 3: `HARNESS-ERROR ...` (a problem of the machinery, never a verdict)
"""
import argparse
import json
import os
import subprocess
import sys
import time as _t

HERE = os.path.dirname(os.path.abspath(__file__))
sys.path.insert(0, HERE)

if os.environ.get('PYTHONHASHSEED') is None:
    # fixed hash seed: the harness does not depend on it (self-test proves
    # that), this merely removes one variable from any bug report
    os.environ['PYTHONHASHSEED'] = '0'
    os.execv(sys.executable, [sys.executable] + ['-O'] * min(sys.flags.optimize, 1) +
             [x for w in sys.warnoptions for x in ('-W', w)] + sys.argv)

from tapesim import seams                       # noqa: E402  (pins the clock)
from tapesim import core                        # noqa: E402
from tapesim.seams import HarnessError          # noqa: E402


def harness_error(msg):
    print('HARNESS-ERROR ' + str(msg).replace('\n', '\n  '), flush=True)
    sys.exit(3)


def fresh_digests(pid, tier, seed, idxs, hashseed):
    env = dict(os.environ, PYTHONHASHSEED=str(hashseed), VERIF_SEED=str(seed))
    out = subprocess.run(
        [sys.executable] + ['-O'] * min(sys.flags.optimize, 1) +
        [x for w in sys.warnoptions for x in ('-W', w)] +
        [os.path.join(HERE, 'check.py'), pid, '--tier', tier,
         '--digest', ','.join(str(i) for i in idxs)],
        env=env, capture_output=True, text=True, timeout=900)
    if out.returncode != 0:
        raise HarnessError('digest subprocess failed: ' + out.stderr[-2000:])
    return {int(k): v for k, v in json.loads(out.stdout.strip().splitlines()[-1]).items()}


def optimized_pass(pid, tier, seed, jobs, total, budget_s):
    """The first runs of the batch once more, in an interpreter started with
    `-O -W error` (`assert` statements are stripped; every warning raises): the
    interpreter configuration an embedder chooses must not move a verdict.
    Returns (exit code, output, evidence)."""
    import shutil
    import tempfile
    n = max(200, total // 8)
    evdir = tempfile.mkdtemp(prefix='tsopt.')
    try:
        env = dict(os.environ, VERIF_OPT_CHILD='1', VERIF_EVIDENCE_DIR=evdir,
                   VERIF_BUDGET_S=str(max(20.0, budget_s / 4)), VERIF_SEED=str(seed),
                   VERIF_JOBS=str(jobs))
        env.pop('PYTHONOPTIMIZE', None)
        out = subprocess.run([sys.executable, '-O', '-W', 'error', os.path.join(HERE, 'check.py'), pid,
                              '--tier', tier, '--runs', str(n)],
                             env=env, capture_output=True, text=True, timeout=budget_s * 3 + 900)
        ev = {}
        p = os.path.join(evdir, pid + '.json')
        if os.path.exists(p):
            ev = json.load(open(p))
        return out.returncode, out.stdout + out.stderr[-2000:], ev
    finally:
        shutil.rmtree(evdir, ignore_errors=True)


def cmd_digest(pid, tier, seed, idxs):
    mod = core.load(pid)
    out = {}
    for i in idxs:
        plan = mod.gen_plan(core.run_seed(seed, pid, i), i, tier)
        out[i] = core.execute(mod, plan)['digest']
    print(json.dumps(out))
    return 0


def cmd_replay(pid, path):
    hit, res, doc = core.replay(pid, path)
    if hit:
        print('replay reproduces: %s' % doc['signature'])
        print('VIOLATION property=%s replay=%s' % (doc.get('property', pid), path))
        return 1
    print('replay does not reproduce %s (violations now: %s)' % (
        doc['signature'], [v['signature'] for v in res['violations']]))
    return 0


def run_check(pid, tier, seed, jobs, budget_s, runs_override=None):
    from concurrent.futures import ProcessPoolExecutor
    import multiprocessing as mp
    t0 = _t.perf_counter()
    # in a child: this process is the image every run is forked from and must
    # stay pristine (the probe itself calls run_script with default arguments)
    child = os.fork()
    if child == 0:
        code = 0
        try:
            seams.check_seams()
        except HarnessError as e:
            print('HARNESS-ERROR ' + str(e), flush=True)
            code = 3
        except BaseException as e:      # noqa
            print('HARNESS-ERROR seam check raised %r' % (e,), flush=True)
            code = 3
        os._exit(code)
    if os.waitpid(child, 0)[1] != 0:
        sys.exit(3)
    mod = core.load(pid)
    known, fixed = core.load_known()
    known = [k for k in known if k.get('property') == pid]
    fixed = [k for k in fixed if k.get('property') == pid]
    known_sigs = {k['sig'] for k in known}

    # committed replays of known / fixed entries are re-executed first
    notes = []
    regress = None
    opt_child = os.environ.get('VERIF_OPT_CHILD') == '1'
    for ent in known + fixed:
        rp = ent.get('replay')
        if not rp or opt_child:         # (the parent re-executes the committed replays)
            continue
        path = os.path.join(HERE, rp)
        if not os.path.exists(path):
            raise HarnessError('missing committed replay ' + rp)
        hit, res, doc = core.replay(pid, path)
        ent['replay_reproduces'] = hit
        if ent in fixed and hit:
            regress = (path, doc['signature'])
        if ent in known and not hit:
            notes.append('known finding no longer reproduces from its replay: ' + ent['sig'])

    total = runs_override or mod.RUNS[tier]
    deadline = _t.monotonic() + budget_s
    args = [(pid, seed, tier, w, jobs, total, known_sigs, deadline) for w in range(jobs)]
    ctx = mp.get_context('fork')
    with ProcessPoolExecutor(max_workers=jobs, mp_context=ctx) as ex:
        parts = list(ex.map(core.worker, args))

    agg = {'runs': 0, 'evals': 0, 'dont_care': 0, 'cells': set(), 'probes': {},
           'faults': {}, 'schedules': set(), 'aux_auth_raised': 0, 'sim_us': 0,
           'fault_free_runs': 0, 'known_hits': {}, 'digests': {}, 'samples': [],
           'evals_fault_free': 0, 'trace_events': 0}
    viol = None
    budget_hit = False
    for p in parts:
        if p['harness_error']:
            raise HarnessError('worker: ' + p['harness_error'])
        for k in ('runs', 'evals', 'dont_care', 'aux_auth_raised', 'sim_us',
                  'fault_free_runs', 'evals_fault_free', 'trace_events'):
            agg[k] += p[k]
        agg['cells'].update(p['cells'])
        agg['schedules'].update(p['schedules'])
        core._merge_counts(agg['probes'], p['probes'])
        core._merge_counts(agg['faults'], p['faults'])
        core._merge_counts(agg['known_hits'], p['known_hits'])
        agg['digests'].update(p['digests'])
        agg['samples'].extend(p['samples'])
        budget_hit = budget_hit or p.get('budget_hit', False)
        if p['violation'] and (viol is None or p['violation']['idx'] < viol['idx']):
            viol = p['violation']

    # determinism sample: same seeds again, here (other process, other worker
    # count) and in a fresh interpreter under another PYTHONHASHSEED
    ndet = 16 if tier == 'quick' else 512
    idxs = sorted(agg['digests'])[:ndet]
    det = {'sampled': len(idxs), 'mismatches': 0}
    if idxs:
        again = {}
        for i in idxs:
            plan = mod.gen_plan(core.run_seed(seed, pid, i), i, tier)
            again[i] = core.execute(mod, plan)['digest']
        fresh = fresh_digests(pid, tier, seed, idxs[:64], 4242)
        for i in idxs:
            if again[i] != agg['digests'][i] or (i in fresh and fresh[i] != again[i]):
                det['mismatches'] += 1
                det.setdefault('first', i)
        det['fresh_interpreter_sampled'] = len(fresh)
    wall_batch = _t.perf_counter() - t0

    status = 0
    out_lines = []
    replay_path = None
    if regress is not None:
        out_lines.append('fixed finding has returned: ' + regress[1])
        out_lines.append('VIOLATION property=%s replay=%s' % (pid, regress[0]))
        status = 1
    if viol is not None:
        sig = viol['violation']['signature']
        prefix = []
        if not core.reproduces(mod, viol['plan'], sig):
            # not reproducible from a fresh process: it needs state left behind
            # by earlier runs of its batch -- the replay is then that sequence
            prefix = viol.get('prefix', [])
            if not prefix or not core.reproduces(mod, viol['plan'], sig, prefix):
                raise HarnessError('violation %s at idx %d does not replay' % (sig, viol['idx']))
            prefix = core.minimise_prefix(mod, prefix, viol['plan'], sig)
        small = core.minimise(mod, viol['plan'], sig, prefix=prefix,
                              max_exec=300 if not prefix else 120)
        stable = core.reproduces(mod, small, sig, prefix) and core.reproduces(mod, small, sig, prefix)
        if not stable:
            small = viol['plan']
        res = core.execute_seq(mod, list(prefix) + [small])[-1]
        v = [x for x in res['violations'] if x['signature'] == sig][0]
        replay_path = core.write_replay(pid, small, v, res['digest'], prefix=prefix)
        out_lines.append('violation %s (run idx %d, seed %d%s) detail=%s' % (
            sig, viol['idx'], seed,
            ', after %d earlier run(s) in the same process' % len(prefix) if prefix else '',
            json.dumps(v['detail'], default=str)[:600]))
        out_lines.append('VIOLATION property=%s replay=%s' % (pid, replay_path))
        status = 1

    # interpreter-configuration pass
    optp = None
    if sys.flags.optimize == 0 and not opt_child and os.environ.get('VERIF_OPT_PASS', '1') != '0':
        rc, out, oev = optimized_pass(pid, tier, seed, jobs, total, budget_s)
        if rc not in (0, 1):
            raise HarnessError('python -O -W error pass failed (exit %d): %s' % (rc, out[-1500:]))
        optp = {'runs': oev.get('coverage', {}).get('runs', 0),
                'evaluations': oev.get('coverage', {}).get('evaluations', 0),
                'violations': oev.get('violations', 0), 'wall_s': oev.get('wall_s')}
        if rc == 1:
            for line in out.splitlines():
                if line.startswith('violation '):
                    out_lines.append('under python -O -W error: ' + line)
                elif line.startswith('VIOLATION '):
                    out_lines.append(line)
            status = 1

    missing = []
    if tier == 'thorough' and not budget_hit and not opt_child:
        missing = [p for p in getattr(mod, 'REQUIRED_PROBES', [])
                   if not agg['probes'].get(p)]

    wall = _t.perf_counter() - t0
    ev = {
        'property_id': pid, 'tier': tier, 'seed': seed, 'level': 'exploration',
        'wall_s': round(wall, 2),
        'violations': (1 if viol is not None else 0) + (1 if regress else 0) +
        (1 if optp and optp['violations'] else 0),
        'coverage': {
            'evaluations': agg['evals'],
            'distinct_nontrivial': len(agg['cells']),
            'rule': mod.RULE % getattr(mod, 'N_CELLS', 0) if '%d' in mod.RULE else mod.RULE,
            'samples': agg['samples'][:3],
            'runs': agg['runs'], 'runs_planned': total,
            'stopped_by_budget': budget_hit,
            'seeds': 'run_seed = mix(VERIF_SEED=%d, %s, idx) for idx in 0..%d' % (
                seed, pid, agg['runs'] - 1),
            'runs_per_hour': int(agg['runs'] / max(wall_batch, 1e-9) * 3600),
            'sim_time_covered_s': agg['sim_us'] // 1_000_000,
            'fault_counts_fired': dict(sorted(agg['faults'].items())),
            'fault_free_runs': agg['fault_free_runs'],
            'evaluations_in_fault_free_runs': agg['evals_fault_free'],
            'distinct_schedules': len(agg['schedules']),
            'trace_events': agg['trace_events'],
            'reach_probes': dict(sorted(agg['probes'].items())),
            'required_probes_missing': missing,
            'dont_care_evaluations': agg['dont_care'],
            'aux': {'auth_raised': agg['aux_auth_raised']},
            'known_findings_reproduced': agg['known_hits'],
            'known_replays': {e['sig']: e.get('replay_reproduces') for e in known},
            'fixed_replays_quiet': {e.get('commit', '?'): not e.get('replay_reproduces')
                                    for e in fixed},
            'determinism_sample': det,
            'python_optimize_pass': optp,
            'components': mod.COMPONENTS,
            'workers': jobs,
            'notes': notes,
        },
        'assumptions': [
            'libsodium (nacl.bindings) and hashlib are trusted; the oracle and the code under test share them',
            'parties, network, ledger and clocks are simulator stubs; every script build, compile, signature and validation is real /repo code',
            'seeded search samples schedules and fault sequences; a clean batch is evidence, not proof',
        ] + list(getattr(mod, 'ASSUMPTIONS', [])),
    }
    evdir = os.environ.get('VERIF_EVIDENCE_DIR') or os.path.join(HERE, 'evidence')
    os.makedirs(evdir, exist_ok=True)
    with open(os.path.join(evdir, pid + '.json'), 'w') as f:
        json.dump(ev, f, indent=1, sort_keys=True, default=core._jd)
        f.write('\n')

    print('%s tier=%s seed=%d runs=%d evals=%d cells=%d schedules=%d wall=%.1fs' % (
        pid, tier, seed, agg['runs'], agg['evals'], len(agg['cells']),
        len(agg['schedules']), wall))
    for n in notes:
        print('note: ' + n)
    if det['mismatches'] and status == 0:
        # (with a violation in hand the violation is the news: a library that
        # leaks state between calls also makes traces history dependent)
        harness_error('determinism self-check mismatch at idx %s' % det.get('first'))
    for k in known:
        print('KNOWN-FINDING: property=%s %s (sig=%s; reproduced %d times this run)' % (
            pid, k['what'], k['sig'], agg['known_hits'].get(k['sig'], 0)))
    for line in out_lines:
        print(line)
    if status == 0 and missing:
        harness_error('insufficient reach, probes still zero: %s' % missing)
    return status


def main():
    ap = argparse.ArgumentParser()
    ap.add_argument('pid', nargs='?')
    ap.add_argument('--tier', default=os.environ.get('VERIF_TIER') or 'quick')
    ap.add_argument('--replay')
    ap.add_argument('--digest')
    ap.add_argument('--runs', type=int)
    ap.add_argument('--selftest')
    a = ap.parse_args()
    seed = int(os.environ.get('VERIF_SEED') or 0)
    jobs = int(os.environ.get('VERIF_JOBS') or min(16, os.cpu_count() or 1))
    tier = a.tier if a.tier in ('quick', 'thorough') else 'quick'
    budget = float(os.environ.get('VERIF_BUDGET_S') or (75 if tier == 'quick' else 1500))
    try:
        if a.selftest:
            from tapesim import selftest
            return selftest.main(a.selftest, a.pid, seed, jobs)
        if not a.pid or a.pid not in core.PROPS:
            print('usage: check <%s> ...' % '|'.join(core.PROPS))
            return 2
        if a.replay:
            return cmd_replay(a.pid, a.replay)
        if a.digest is not None:
            return cmd_digest(a.pid, tier, seed, [int(x) for x in a.digest.split(',') if x])
        return run_check(a.pid, tier, seed, jobs, budget, a.runs)
    except HarnessError as e:
        harness_error(e)
    except Exception:
        import traceback
        harness_error('unexpected exception in the harness:\n' + traceback.format_exc())


if __name__ == '__main__':
    sys.exit(main())
